// Package sc holds the lifecycle scenario format (the replay format), the YAML
// emitter and the executor that drives a real ProjectRunner through the fake
// commander and records a History for the trace oracles.
package sc

import (
	"fmt"
	"sort"
	"strings"
)

type Dep struct {
	On   string `json:"on"`
	Cond string `json:"cond"`
}

type ProcSpec struct {
	Name          string `json:"name"`
	Deps          []Dep  `json:"deps,omitempty"`
	Restart       string `json:"restart,omitempty"`
	MaxRestarts   int    `json:"max_restarts,omitempty"`
	Backoff       int    `json:"backoff,omitempty"`
	ExitOnEnd     bool   `json:"exit_on_end,omitempty"`
	ExitOnSkipped bool   `json:"exit_on_skipped,omitempty"`
	Disabled      bool   `json:"disabled,omitempty"`
	Foreground    bool   `json:"foreground,omitempty"`
	Daemon        bool   `json:"daemon,omitempty"`
	ReadyProbe    bool   `json:"ready_probe,omitempty"`
	LiveProbe     bool   `json:"live_probe,omitempty"`
	ReadyLine     string `json:"ready_line,omitempty"`
	BadDir        bool   `json:"bad_dir,omitempty"`
	WorkingDir    string `json:"working_dir,omitempty"`
	Replicas      int    `json:"replicas,omitempty"`
	Signal        int    `json:"signal,omitempty"`
	// ShutdownCmd: shutdown.command (run for real; "true" leaves the fake command unsignalled, so it
	// dies whenever the scenario says so). ShutdownTimeout: shutdown.timeout_seconds (real seconds).
	ShutdownCmd     string            `json:"shutdown_cmd,omitempty"`
	ShutdownTimeout int               `json:"shutdown_timeout,omitempty"`
	Namespace       string            `json:"namespace,omitempty"`
	Description     string            `json:"description,omitempty"`
	Command         string            `json:"command,omitempty"`
	Entrypoint      []string          `json:"entrypoint,omitempty"` // used instead of command when set
	Env             []string          `json:"env,omitempty"`
	LogLocation     string            `json:"log_location,omitempty"`
	Extra           map[string]string `json:"extra,omitempty"` // raw yaml lines under the process
	// Beh[k] is the behaviour of launch k; the last entry repeats.
	Beh []LaunchBeh `json:"beh,omitempty"`
}

type LaunchBeh struct {
	StartErr bool   `json:"start_err,omitempty"`
	OnSignal string `json:"on_signal,omitempty"`
}

// Step is one harness action. Unknown/inapplicable steps are skipped and recorded as such.
type Step struct {
	Op     string `json:"op"`
	Proc   string `json:"proc,omitempty"`
	Code   int    `json:"code,omitempty"`
	Stream int    `json:"stream,omitempty"`
	Text   string `json:"text,omitempty"`
	OK     bool   `json:"ok,omitempty"`
	Fatal  bool   `json:"fatal,omitempty"`
	N      int    `json:"n,omitempty"`
	Point  string `json:"point,omitempty"`
	// NoSettle skips the wait for quiescence after the step.
	NoSettle bool `json:"no_settle,omitempty"`
	// Names for stop-many; Procs for update.
	Names []string   `json:"names,omitempty"`
	Procs []ProcSpec `json:"procs,omitempty"`
	// Top: project-level YAML of the updated configuration (empty: the scenario's).
	Top string `json:"top,omitempty"`
}

func (s Step) String() string {
	b := s.Op
	if s.Proc != "" {
		b += " " + s.Proc
	}
	switch s.Op {
	case OpExit:
		b += fmt.Sprintf(" code=%d", s.Code)
	case OpLine:
		b += fmt.Sprintf(" stream=%d %q", s.Stream, s.Text)
	case OpProbe:
		b += fmt.Sprintf(" ok=%v fatal=%v", s.OK, s.Fatal)
	case OpScale:
		b += fmt.Sprintf(" n=%d", s.N)
	case OpHold, OpRelease:
		b += " @" + s.Point
	}
	return b
}

const (
	OpExit        = "exit"
	OpLine        = "line"
	OpProbe       = "probe"
	OpLiveProbe   = "liveprobe"
	OpKillRelease = "kill-release"
	OpStart       = "start"
	OpStop        = "stop"
	OpStopMany    = "stop-many"
	OpRestart     = "restart"
	OpScale       = "scale"
	OpShutdown    = "shutdown"
	OpUpdate      = "update"
	OpHold        = "hold"
	OpRelease     = "release"
	OpAwaitState  = "await-state"
	OpSettle      = "settle"
)

type Scenario struct {
	Procs   []ProcSpec `json:"procs"`
	Ordered bool       `json:"ordered,omitempty"`
	// Top is raw YAML inserted at project level (global environment, env_cmds, vars, log settings).
	Top       string   `json:"top,omitempty"`
	Strict    bool     `json:"strict,omitempty"`
	LogLength int      `json:"log_length,omitempty"`
	ToRun     []string `json:"to_run,omitempty"`
	NoDeps    bool     `json:"no_deps,omitempty"`
	// PreHolds are armed before Run() starts.
	PreHolds   []Step `json:"pre_holds,omitempty"`
	Steps      []Step `json:"steps"`
	TimeUnitMs int    `json:"time_unit_ms,omitempty"`
	// FinishCode is the exit code used for commands still alive in the end game.
	FinishCodes []int `json:"finish_codes,omitempty"`
	NoFinish    bool  `json:"no_finish,omitempty"`
	// FinishRounds is the number of end-game rounds of scripted exits before a shutdown is requested (default 3).
	FinishRounds int    `json:"finish_rounds,omitempty"`
	Note         string `json:"note,omitempty"`
}

func (s *Scenario) Spec(name string) *ProcSpec {
	for i := range s.Procs {
		if s.Procs[i].Name == name {
			return &s.Procs[i]
		}
	}
	return nil
}

func q(s string) string {
	return "'" + strings.ReplaceAll(s, "'", "''") + "'"
}

// YAML renders process specs as a process-compose file.
func YAML(procs []ProcSpec, strict bool, logLength int, top ...string) string {
	var b strings.Builder
	b.WriteString("version: \"0.5\"\n")
	for _, t := range top {
		b.WriteString(t)
	}
	if strict {
		b.WriteString("is_strict: true\n")
	}
	if logLength > 0 {
		fmt.Fprintf(&b, "log_length: %d\n", logLength)
	}
	b.WriteString("processes:\n")
	for _, p := range procs {
		fmt.Fprintf(&b, "  %s:\n", p.Name)
		if len(p.Entrypoint) > 0 {
			b.WriteString("    entrypoint:\n")
			for _, a := range p.Entrypoint {
				fmt.Fprintf(&b, "      - %s\n", q(a))
			}
		} else {
			cmd := p.Command
			if cmd == "" {
				cmd = "run-" + p.Name
			}
			fmt.Fprintf(&b, "    command: %s\n", q(cmd))
		}
		if p.Disabled {
			b.WriteString("    disabled: true\n")
		}
		if p.Foreground {
			b.WriteString("    is_foreground: true\n")
		}
		if p.Daemon {
			b.WriteString("    is_daemon: true\n")
		}
		if p.BadDir {
			b.WriteString("    working_dir: /nonexistent/verif-bad-dir\n")
		} else if p.WorkingDir != "" {
			fmt.Fprintf(&b, "    working_dir: %s\n", q(p.WorkingDir))
		}
		if p.Replicas > 0 {
			fmt.Fprintf(&b, "    replicas: %d\n", p.Replicas)
		}
		if p.Namespace != "" {
			fmt.Fprintf(&b, "    namespace: %s\n", p.Namespace)
		}
		if p.Description != "" {
			fmt.Fprintf(&b, "    description: %s\n", q(p.Description))
		}
		if p.LogLocation != "" {
			fmt.Fprintf(&b, "    log_location: %s\n", q(p.LogLocation))
		}
		if p.ReadyLine != "" {
			fmt.Fprintf(&b, "    ready_log_line: %s\n", q(p.ReadyLine))
		}
		if len(p.Env) > 0 {
			b.WriteString("    environment:\n")
			for _, e := range p.Env {
				fmt.Fprintf(&b, "      - %s\n", q(e))
			}
		}
		if p.Restart != "" || p.MaxRestarts != 0 || p.Backoff != 0 || p.ExitOnEnd || p.ExitOnSkipped {
			b.WriteString("    availability:\n")
			if p.Restart != "" {
				fmt.Fprintf(&b, "      restart: %s\n", q(p.Restart))
			}
			if p.MaxRestarts != 0 {
				fmt.Fprintf(&b, "      max_restarts: %d\n", p.MaxRestarts)
			}
			if p.Backoff != 0 {
				fmt.Fprintf(&b, "      backoff_seconds: %d\n", p.Backoff)
			}
			if p.ExitOnEnd {
				b.WriteString("      exit_on_end: true\n")
			}
			if p.ExitOnSkipped {
				b.WriteString("      exit_on_skipped: true\n")
			}
		}
		if p.Signal != 0 || p.ShutdownCmd != "" || p.ShutdownTimeout != 0 {
			b.WriteString("    shutdown:\n")
			if p.Signal != 0 {
				fmt.Fprintf(&b, "      signal: %d\n", p.Signal)
			}
			if p.ShutdownCmd != "" {
				fmt.Fprintf(&b, "      command: %q\n", p.ShutdownCmd)
			}
			if p.ShutdownTimeout != 0 {
				fmt.Fprintf(&b, "      timeout_seconds: %d\n", p.ShutdownTimeout)
			}
		}
		if p.ReadyProbe {
			b.WriteString("    readiness_probe:\n      http_get:\n        host: 127.0.0.1\n        port: 1\n      period_seconds: 1\n      failure_threshold: 3\n")
		}
		if p.LiveProbe {
			b.WriteString("    liveness_probe:\n      http_get:\n        host: 127.0.0.1\n        port: 1\n      period_seconds: 1\n      failure_threshold: 3\n")
		}
		if len(p.Deps) > 0 {
			b.WriteString("    depends_on:\n")
			for _, d := range p.Deps {
				fmt.Fprintf(&b, "      %s:\n        condition: %s\n", d.On, d.Cond)
			}
		}
		keys := make([]string, 0, len(p.Extra))
		for k := range p.Extra {
			keys = append(keys, k)
		}
		sort.Strings(keys)
		for _, k := range keys {
			fmt.Fprintf(&b, "    %s: %s\n", k, p.Extra[k])
		}
	}
	return b.String()
}
