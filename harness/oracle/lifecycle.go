package oracle

import (
	"sort"
	"strings"
	"time"

	"verif/harness/sc"
	"verif/harness/world"
)

const (
	CondCompleted = "process_completed"
	CondSuccess   = "process_completed_successfully"
	CondHealthy   = "process_healthy"
	CondStarted   = "process_started"
	CondLogReady  = "process_log_ready"
)

// ---------------------------------------------------------------- C01

// finalEndBefore: did dependency d reach, at some time before seq, an end that was final
// (not followed by a policy relaunch; a later relaunch caused by an explicit request
// does not count)? With wantZero only ends with exit code 0 qualify.
func (x *Idx) finalEndBefore(d string, seq int, wantZero bool) bool {
	for i := 0; i < seq && i < len(x.Ev); i++ {
		e := x.Ev[i]
		if e.Proc != d {
			continue
		}
		switch e.Kind {
		case world.EvExit:
			if wantZero && e.Code != 0 {
				continue
			}
			final := true
			for j := i + 1; j < len(x.Ev); j++ {
				n := x.Ev[j]
				if n.Proc == d && (n.Kind == world.EvLaunch || n.Kind == world.EvStartFail) {
					final = x.apiStartBetween(d, i, j)
					break
				}
			}
			if final {
				return true
			}
		case world.EvStartFail:
			if !wantZero {
				return true
			}
		case world.EvState:
			if !wantZero && (e.Text == "Skipped" || e.Text == "Error" || e.Text == "Completed") {
				return true
			}
		}
	}
	return false
}

// C01 checks every launch against the facts recorded before it.
func C01(x *Idx) []V {
	var out []V
	for _, l := range x.Insts {
		for _, in := range l {
			ev := x.Ev[in.Launch]
			proc := ev.Proc
			name := procName(x, proc)
			sp := x.SpecAt(name, in.Launch)
			if sp == nil {
				continue
			}
			for _, d := range sp.Deps {
				dsp := x.SpecAt(d.On, in.Launch)
				if dsp == nil {
					continue
				}
				if !scheduled(dsp) {
					// a disabled / foreground dependency is not part of the start-up plan; but once it was
					// started by a request, a dependent created by a later request finds its instance and
					// has to wait for it like for any other
					c := x.creatingRequest(proc, in.Launch)
					if c < 0 || x.lastOKStartReq(d.On, c) < 0 {
						continue
					}
				}
				if x.H.Scenario.NoDeps && len(x.H.Scenario.ToRun) > 0 {
					continue
				}
				// nothing known about the dependency at all (never registered with the runner)
				if x.has(0, in.Launch, func(e world.Event) bool { return e.Proc == d.On }) < 0 {
					out = append(out, V{"C01", "dep-never-seen", f("%s launched (seq %d) but dependency %s (%s) has no event at all before it", proc, in.Launch, d.On, d.Cond)})
					continue
				}
				// a dependency that was stopped before it ever launched "ends" without having run:
				// the statement does not say what that counts as for the completion and started
				// conditions. Readiness conditions are never excused: they need the fact.
				if sr := x.FirstStopReq(d.On, 0, in.Launch); sr >= 0 && d.Cond != CondHealthy && d.Cond != CondLogReady {
					if x.has(0, sr, func(e world.Event) bool { return e.Proc == d.On && e.Kind == world.EvLaunch }) < 0 {
						continue
					}
				}
				okc := false
				switch d.Cond {
				case CondCompleted:
					okc = x.finalEndBefore(d.On, in.Launch, false)
				case CondSuccess:
					okc = x.finalEndBefore(d.On, in.Launch, true)
				case CondHealthy:
					okc = x.has(0, in.Launch, func(e world.Event) bool {
						return e.Kind == world.EvProbe && e.Proc == d.On && e.Text == "ok"
					}) >= 0
				case CondLogReady:
					okc = dsp.ReadyLine != "" && x.has(0, in.Launch, func(e world.Event) bool {
						return e.Kind == world.EvLine && e.Proc == d.On && strings.Contains(e.Text, dsp.ReadyLine)
					}) >= 0
				case CondStarted, "":
					okc = x.has(0, in.Launch, func(e world.Event) bool {
						if e.Proc != d.On {
							return false
						}
						return e.Kind == world.EvMark && e.Text == "released" || e.Kind == world.EvLaunch || e.Kind == world.EvStartFail ||
							e.Kind == world.EvState && (e.Text == "Skipped" || e.Text == "Error" || e.Text == "Terminating" || e.Text == "Completed")
					}) >= 0
				default:
					continue
				}
				if !okc {
					out = append(out, V{"C01", "launched-before-condition", f("%s launched at seq %d (inst %d) before dependency %s met %s", proc, in.Launch, in.Inst, d.On, d.Cond)})
					continue
				}
				// the clear case of "ready": the dependent was created by a request (seq c) while an
				// instance of the dependency, itself created by an earlier request (seq r), was alive, and
				// that instance is still alive at the launch: the success must be this instance's, not one
				// an earlier instance left behind
				if d.Cond == CondHealthy && !x.Touched() {
					c := -1
					for i := in.Launch - 1; i >= 0; i-- {
						if e := x.Ev[i]; e.Kind == world.EvLaunch && e.Proc == proc {
							break
						}
						if isStartReq(x.Ev[i], proc) {
							c = i
							break
						}
					}
					if c < 0 {
						continue
					}
					if rt := x.RetOf(c); rt < 0 || !strings.HasSuffix(x.Ev[rt].Text, " ok") {
						continue // the request created nothing: this is a relaunch by policy
					}
					r := -1
					for i := c - 1; i >= 0; i-- {
						if isStartReq(x.Ev[i], d.On) {
							r = i
							break
						}
					}
					if r < 0 {
						continue
					}
					var live *Inst
					n := 0
					for _, di := range x.Insts[d.On] {
						if di.Launch > r && di.Launch < c {
							n++
							if di.Exit < 0 || di.Exit > in.Launch {
								live = di
							}
						}
					}
					// exactly one command since the request: no policy relaunch in between (the readiness
					// of the instance object outlives its commands)
					if live == nil || n != 1 {
						continue
					}
					if x.has(r, in.Launch, func(e world.Event) bool {
						return e.Kind == world.EvProbe && e.Proc == d.On && e.Text == "ok"
					}) < 0 {
						out = append(out, V{"C01", "launched-on-stale-readiness", f("%s (created by the request at seq %d) launched at seq %d while the dependency %s - restarted by the request at seq %d, command alive since seq %d - had not passed its probe once since then (process_healthy)", proc, c, in.Launch, d.On, r, live.Launch)})
					}
				}
			}
		}
	}
	return out
}

// creatingRequest: seq of the start/restart request (answered ok) that created the instance of proc
// whose first command was launched at launchSeq, -1 if that instance was not created by a request.
func (x *Idx) creatingRequest(proc string, launchSeq int) int {
	for i := launchSeq - 1; i >= 0; i-- {
		if e := x.Ev[i]; e.Kind == world.EvLaunch && e.Proc == proc {
			return -1
		}
		if isStartReq(x.Ev[i], proc) && (x.Ev[i].Text == sc.OpStart || x.Ev[i].Text == sc.OpRestart) {
			if rt := x.RetOf(i); rt >= 0 && strings.HasSuffix(x.Ev[rt].Text, " ok") {
				return i
			}
			return -1
		}
	}
	return -1
}

// lastOKStartReq: seq of the last start/restart request on proc before seq that was answered ok.
func (x *Idx) lastOKStartReq(proc string, seq int) int {
	for i := seq - 1; i >= 0; i-- {
		if isStartReq(x.Ev[i], proc) && (x.Ev[i].Text == sc.OpStart || x.Ev[i].Text == sc.OpRestart) {
			if rt := x.RetOf(i); rt >= 0 && rt < seq && strings.HasSuffix(x.Ev[rt].Text, " ok") {
				return i
			}
		}
	}
	return -1
}

// procName maps a replica name back to its config name.
func procName(x *Idx, replica string) string {
	if x.H.Scenario.Spec(replica) != nil {
		return replica
	}
	if i := strings.LastIndexByte(replica, '-'); i > 0 {
		base := replica[:i]
		if x.SpecAt(base, x.End) != nil || x.H.Scenario.Spec(base) != nil {
			return base
		}
	}
	for _, a := range x.H.Applied {
		if a.Step.Op == sc.OpUpdate {
			for _, p := range a.Step.Procs {
				if p.Name == replica {
					return replica
				}
			}
		}
	}
	return replica
}

// ---------------------------------------------------------------- C02

func policyRestarts(sp *sc.ProcSpec, code, relaunches int) bool {
	var want bool
	switch sp.Restart {
	case "always":
		want = true
	case "on_failure":
		want = code != 0
	default:
		want = false
	}
	if want && sp.MaxRestarts > 0 && relaunches >= sp.MaxRestarts {
		want = false
	}
	return want
}

// C02 checks every exit of every untouched single-replica process against the policy table.
func C02(x *Idx) []V {
	var out []V
	if x.Touched() {
		return nil
	}
	unit := time.Duration(x.H.UnitMs) * time.Millisecond
	for proc, l := range x.Insts {
		sp := x.Spec(proc)
		if sp == nil || sp.ReadyProbe || sp.LiveProbe || sp.Daemon {
			continue
		}
		relaunches := 0
		for i, in := range l {
			if in.APIStart {
				relaunches = 0 // a new instance counts from zero
			}
			if in.Exit < 0 {
				continue
			}
			// next launch attempt of this process after the exit
			next := x.has(in.Exit, x.End, func(e world.Event) bool {
				return e.Proc == proc && (e.Kind == world.EvLaunch || e.Kind == world.EvStartFail)
			})
			nextIsAPI := next >= 0 && x.apiStartBetween(proc, in.Exit, next)
			policy := policyRestarts(sp, in.Code, relaunches)
			stopBefore := x.FirstStopReq(proc, in.Launch, in.Exit)
			if stopBefore < 0 {
				// a stop request issued before this launch and still outstanding at it (it was
				// blocked while the back-off expired): if it signalled this instance it is this
				// instance's stop; if it did not, its effect on this instance is not determined
				out0 := x.outstandingStopAt(proc, in.Launch)
				if out0 >= 0 {
					if len(in.Signals) > 0 {
						stopBefore = out0
					} else {
						continue
					}
				}
			}
			internalShutdown := x.has(0, in.Exit, func(e world.Event) bool { return e.Kind == world.EvMark && e.Text == "shutdown-begin" }) >= 0
			upto := x.End
			if next >= 0 {
				upto = next
			}
			stopDuring := x.FirstStopReq(proc, in.Exit, upto)
			shutdownDuring := x.has(in.Exit, upto, func(e world.Event) bool { return e.Kind == world.EvMark && e.Text == "shutdown-begin" }) >= 0
			relaunched := next >= 0 && !nextIsAPI
			switch {
			case stopBefore >= 0 || internalShutdown:
				if relaunched {
					out = append(out, V{"C02", "relaunch-after-stop", f("%s relaunched at seq %d although a stop/shutdown was requested (seq %d) before its exit at seq %d", proc, next, stopBefore, in.Exit)})
				}
			case !policy:
				if relaunched {
					out = append(out, V{"C02", "relaunch-against-policy", f("%s (restart=%q max=%d) relaunched at seq %d after exit code %d with %d relaunches so far", proc, sp.Restart, sp.MaxRestarts, next, in.Code, relaunches)})
				}
			case stopDuring >= 0 || shutdownDuring:
				// stop landed between exit and relaunch: either outcome, but never after the request returned
				if relaunched && stopDuring >= 0 {
					ret := x.RetOf(stopDuring)
					if ret >= 0 && ret < next {
						out = append(out, V{"C02", "relaunch-after-stop-returned", f("%s relaunched at seq %d after the stop request (seq %d) had returned (seq %d)", proc, next, stopDuring, ret)})
					}
				}
			default:
				if !relaunched && !nextIsAPI {
					if x.H.Finished && x.H.Busy == "" {
						out = append(out, V{"C02", "no-relaunch", f("%s (restart=%q max=%d) was not relaunched after exit code %d at seq %d (relaunches so far %d)", proc, sp.Restart, sp.MaxRestarts, in.Code, in.Exit, relaunches)})
					}
				}
			}
			if relaunched {
				relaunches++
				// back-off lower bound (monotonic clock, launch attempts only)
				min := sp.Backoff
				if min < 1 {
					min = 1
				}
				gap := time.Duration(int64(x.Ev[next].T) - in.ExitT)
				if gap < time.Duration(min)*unit {
					out = append(out, V{"C02", "backoff-too-short", f("%s relaunched %v after its exit, back-off is %d unit(s) of %v", proc, gap, min, unit)})
				}
			}
			_ = i
		}
		out = append(out, x.restartCountVerdicts("C02", proc, l)...)
	}
	return out
}

// outstandingStopAt: seq of a stop-ish request on proc that was called before seq and had not
// returned at seq (-1 if none).
func (x *Idx) outstandingStopAt(proc string, seq int) int {
	for i := 0; i < seq && i < len(x.Ev); i++ {
		if isStopReq(x.Ev[i], proc) {
			if r := x.RetOf(i); r < 0 || r > seq {
				return i
			}
		}
	}
	return -1
}

// restartCountVerdicts: for a process that has not been stopped yet, the reported restart count
// equals the number of relaunches, at every quiescent snapshot.
func (x *Idx) restartCountVerdicts(prop, proc string, l []*Inst) []V {
	var out []V
	{
		firstStop := x.FirstStopReq(proc, 0, x.End)
		if sb := x.has(0, x.End, func(e world.Event) bool { return e.Kind == world.EvMark && e.Text == "shutdown-begin" }); sb >= 0 && (firstStop < 0 || sb < firstStop) {
			firstStop = sb
		}
		for _, sn := range x.H.Snaps {
			if firstStop >= 0 && sn.Seq > firstStop {
				break
			}
			st, ok := sn.States[proc]
			if !ok {
				continue
			}
			if st.Status == "Restarting" {
				continue // counted already, relaunch still pending (held in the back-off window)
			}
			n := 0
			// an explicit (re)start begins a new count: not judged afterwards
			apiSeen := x.has(0, sn.Seq, func(e world.Event) bool { return isStartReq(e, proc) }) >= 0
			for _, in := range l {
				if in.Launch >= sn.Seq {
					break
				}
				if in.APIStart {
					apiSeen = true
				}
				n++
			}
			fails := 0
			for i := 0; i < sn.Seq && i < len(x.Ev); i++ {
				if x.Ev[i].Kind == world.EvStartFail && x.Ev[i].Proc == proc {
					fails++
				}
			}
			if apiSeen || n+fails == 0 {
				continue
			}
			if want := n + fails - 1; st.Restarts != want {
				out = append(out, V{prop, "restart-count", f("%s reports restarts=%d at snapshot seq %d, %d relaunches happened", proc, st.Restarts, sn.Seq, want)})
				break
			}
		}
	}
	return out
}

// ---------------------------------------------------------------- C03

func C03(x *Idx) []V {
	var out []V
	for i, e := range x.Ev {
		if e.Kind != world.EvAPI || e.Text != sc.OpShutdown {
			continue
		}
		ret := x.RetOf(i)
		if ret < 0 {
			if x.H.Finished && x.H.Busy == "" {
				out = append(out, V{"C03", "shutdown-never-returned", f("ShutDownProject called at seq %d never returned although every command has exited", i)})
			}
			continue
		}
		for _, l := range x.Insts {
			for _, in := range l {
				// a start request issued after the shutdown request (served during or after it) is a
				// new start request: what it launches is not this shutdown's business
				if in.Launch > i && x.apiStartBetween(in.Proc, i, in.Launch) {
					continue
				}
				if in.Launch < ret && (in.Exit < 0 || in.Exit > ret) {
					out = append(out, V{"C03", "alive-after-shutdown", f("%s inst %d (launched seq %d) still alive when ShutDownProject returned at seq %d", in.Proc, in.Inst, in.Launch, ret)})
				}
				if in.Launch > ret && !x.apiStartBetween(in.Proc, ret, in.Launch) {
					out = append(out, V{"C03", "launch-after-shutdown", f("%s launched at seq %d after ShutDownProject returned at seq %d without a new start request", in.Proc, in.Launch, ret)})
				}
			}
		}
		for _, sn := range x.H.Snaps {
			if sn.Seq <= ret {
				continue
			}
			if x.has(i, sn.Seq, func(e world.Event) bool {
				return e.Kind == world.EvAPI && (e.Text == sc.OpStart || e.Text == sc.OpRestart || e.Text == sc.OpScale || e.Text == sc.OpUpdate)
			}) >= 0 {
				break
			}
			for n, st := range sn.States {
				if st.IsRunning {
					out = append(out, V{"C03", "reported-running-after-shutdown", f("%s reported running (status %s) at snapshot seq %d after ShutDownProject returned at seq %d", n, st.Status, sn.Seq, ret)})
				}
			}
		}
	}
	sb := x.ShutdownBegin()
	if sb >= 0 && x.H.Finished && x.H.Busy == "" && !x.H.RunReturned {
		out = append(out, V{"C03", "run-never-returned", f("a project shutdown began at seq %d, every command has exited, but Run() has not returned; parked: %s", sb, parkedSummary(x.H))})
	}
	return out
}

func parkedSummary(h *sc.History) string {
	var fr []string
	for _, p := range h.Parked {
		fr = append(fr, topFrames(p))
	}
	sort.Strings(fr)
	return strings.Join(fr, " | ")
}

// TopFrames: the two innermost process-compose frames of a goroutine dump entry.
func TopFrames(body string) string { return topFrames(body) }

func topFrames(body string) string {
	var names []string
	for _, ln := range strings.Split(body, "\n") {
		if strings.HasPrefix(ln, "\t") || ln == "" || strings.HasPrefix(ln, "[") {
			continue
		}
		if i := strings.Index(ln, "process-compose/src/"); i >= 0 && !strings.HasPrefix(ln, "created by") {
			fn := ln[i+len("process-compose/src/"):]
			if p := strings.LastIndexByte(fn, '('); p > 0 {
				fn = fn[:p]
			}
			names = append(names, fn)
			if len(names) == 2 {
				break
			}
		}
	}
	return strings.Join(names, "<-")
}

// ParkedIn reports whether some goroutine of the system is parked in the named function.
func ParkedIn(h *sc.History, fn string) bool {
	for _, p := range h.Parked {
		if strings.Contains(p, fn) {
			return true
		}
	}
	return false
}

// ---------------------------------------------------------------- C04

// lastInst returns the last instance of proc (nil if never launched).
func (x *Idx) lastInst(proc string) *Inst {
	l := x.Insts[proc]
	if len(l) == 0 {
		return nil
	}
	return l[len(l)-1]
}

func (x *Idx) finalStatus(proc string) string {
	return x.LastStateBefore(proc, x.End)
}

func C04(x *Idx) []V {
	var out []V
	h := x.H
	if h.RunReturned && h.RunSeq >= 0 {
		for _, l := range x.Insts {
			for _, in := range l {
				if in.Launch < h.RunSeq && (in.Exit < 0 || in.Exit > h.RunSeq) {
					out = append(out, V{"C04", "run-returned-while-alive", f("Run() returned at seq %d while %s inst %d was still alive", h.RunSeq, in.Proc, in.Inst)})
				}
			}
		}
	}
	if h.Finished && h.Busy == "" && !h.RunReturned && !h.Scenario.NoFinish {
		out = append(out, V{"C04", "run-never-returned", f("every command has exited and nothing can start, but Run() has not returned; parked: %s", parkedSummary(h))})
	}
	if !h.RunReturned || x.Touched() {
		return out
	}
	return append(out, x.resultVerdict("C04")...)
}

// resultVerdict compares Run()'s result with the set of acceptable codes: the codes of
// the processes whose end could have triggered the project shutdown, i.e. trigger events
// that happened before the shutdown began (never its victims).
func (x *Idx) resultVerdict(prop string) []V {
	var out []V
	h := x.H
	mark := x.has(0, x.End, func(e world.Event) bool { return e.Kind == world.EvMark && e.Text == "shutdown-begin" })
	if mark < 0 {
		mark = x.End
	}
	type trig struct {
		seq  int
		code int
		why  string
	}
	var trigs []trig
	for _, sp := range h.Scenario.Procs {
		if !scheduled(&sp) && len(x.Insts[sp.Name]) == 0 {
			continue
		}
		if sp.Replicas > 1 {
			continue
		}
		name := sp.Name
		flagEnd := sp.ExitOnEnd
		flagFail := sp.Restart == "exit_on_failure"
		for i, e := range x.Ev {
			if e.Proc != name || e.Kind != world.EvState {
				continue
			}
			switch e.Text {
			case "Skipped":
				if sp.ExitOnSkipped {
					trigs = append(trigs, trig{i, 1, name + " skipped"})
				}
			case "Error":
				if flagEnd || flagFail {
					trigs = append(trigs, trig{i, 1, name + " failed to start"})
				}
			case "Completed":
				if !flagEnd && !flagFail {
					continue
				}
				// the end of the run loop: exit code of the last command before it, if any
				var last *Inst
				for _, in := range x.Insts[name] {
					if in.Exit >= 0 && in.Exit < i {
						last = in
					}
				}
				code := 0
				why := name + " ended without having been started"
				if last != nil {
					code = last.Code
					why = f("%s exit %d (%s)", name, last.Code, last.Cause)
				}
				if flagEnd || code != 0 {
					trigs = append(trigs, trig{i, code, why})
				}
			}
		}
	}
	acc := map[int]string{}
	first := mark
	for _, t := range trigs {
		if t.seq < mark {
			acc[t.code] = t.why
			if t.seq < first {
				first = t.seq
			}
		}
	}
	// a shutdown requested through the API before any trigger: the statement does not say
	// what Run() reports then
	if api := x.has(0, mark, func(e world.Event) bool { return e.Kind == world.EvAPI && e.Text == sc.OpShutdown }); api >= 0 && api < first {
		return nil
	}
	if len(acc) == 0 {
		if h.RunCode != 0 {
			out = append(out, V{prop, "failure-without-trigger", f("Run() reported exit code %d but no exit_on_* condition was met before the shutdown began", h.RunCode)})
		}
		return out
	}
	if _, ok := acc[h.RunCode]; !ok {
		var why []string
		for c, w := range acc {
			why = append(why, f("%d (%s)", c, w))
		}
		sort.Strings(why)
		out = append(out, V{prop, "wrong-exit-code", f("Run() reported exit code %d; acceptable: %s", h.RunCode, strings.Join(why, ", "))})
	}
	return out
}

// ---------------------------------------------------------------- C05

type depVerdict int

const (
	depMay depVerdict = iota
	depSat
	depUnsat
)

// depFinal judges a dependency edge once everything has ended.
func (x *Idx) depFinal(d sc.Dep) depVerdict {
	dsp := x.Spec(d.On)
	if !scheduled(dsp) {
		return depSat
	}
	final := x.finalStatus(d.On)
	l := x.Insts[d.On]
	// explicit (re)starts of the dependency make timing matter: not judged
	for _, in := range l {
		if in.APIStart {
			return depMay
		}
	}
	stopReq := x.FirstStopReq(d.On, 0, x.End)
	terminal := final == "Completed" || final == "Skipped" || final == "Error"
	switch d.Cond {
	case CondCompleted, CondStarted, "":
		return depSat
	case CondSuccess:
		if stopReq >= 0 && (len(l) == 0 || l[0].Launch > stopReq) {
			return depMay // stopped before it was ever started: the statement does not say what it counts as
		}
		if final == "Skipped" || final == "Error" {
			return depUnsat
		}
		if final == "Completed" && len(l) > 0 && l[len(l)-1].Exit >= 0 {
			if l[len(l)-1].Code != 0 {
				return depUnsat
			}
			return depSat
		}
		return depMay
	case CondHealthy, CondLogReady:
		factAt := -1
		if d.Cond == CondHealthy {
			factAt = x.has(0, x.End, func(e world.Event) bool { return e.Kind == world.EvProbe && e.Proc == d.On && e.Text == "ok" })
		} else if dsp.ReadyLine != "" {
			factAt = x.has(0, x.End, func(e world.Event) bool {
				return e.Kind == world.EvLine && e.Proc == d.On && strings.Contains(e.Text, dsp.ReadyLine)
			})
		}
		if factAt < 0 {
			if terminal {
				return depUnsat
			}
			return depMay
		}
		// ready at some point: stable only if nothing disturbed it afterwards
		if d.Cond == CondLogReady {
			if stopReq >= 0 && stopReq < factAt {
				return depMay
			}
			return depSat
		}
		disturbed := x.has(factAt, x.End, func(e world.Event) bool {
			if e.Proc != d.On {
				return false
			}
			return e.Kind == world.EvProbe && e.Text != "ok" || e.Kind == world.EvStop || e.Kind == world.EvLaunch || e.Kind == world.EvState && (e.Text == "Restarting" || e.Text == "Terminating")
		}) >= 0
		if disturbed || stopReq >= 0 {
			return depMay
		}
		return depSat
	}
	return depMay
}

func C05(x *Idx) []V {
	var out []V
	h := x.H
	if !h.Finished || h.Busy != "" || x.Touched() {
		return nil
	}
	for _, sp := range h.Scenario.Procs {
		if !scheduled(&sp) || sp.Replicas > 1 || len(sp.Deps) == 0 {
			continue
		}
		name := sp.Name
		if len(h.Scenario.ToRun) > 0 {
			continue
		}
		anyUnsat, allSat := false, true
		var why string
		for _, d := range sp.Deps {
			switch x.depFinal(d) {
			case depUnsat:
				anyUnsat = true
				why = f("%s (%s)", d.On, d.Cond)
				allSat = false
			case depMay:
				allSat = false
			}
		}
		// explicit requests on the dependent itself change the picture
		touched := x.has(0, x.End, func(e world.Event) bool {
			return e.Kind == world.EvAPI && (isStartReq(e, name) || isStopReq(e, name))
		}) >= 0
		sb := x.ShutdownBegin()
		final := x.finalStatus(name)
		launches := len(x.Insts[name])
		fails := x.has(0, x.End, func(e world.Event) bool { return e.Kind == world.EvStartFail && e.Proc == name }) >= 0
		var fst *struct {
			Status string
			Code   int
		}
		if n := len(h.Snaps); n > 0 {
			if st, ok := h.Snaps[n-1].States[name]; ok {
				fst = &struct {
					Status string
					Code   int
				}{st.Status, st.ExitCode}
			}
		}
		if anyUnsat && !touched {
			if launches > 0 || fails {
				out = append(out, V{"C05", "launched-despite-unsatisfiable", f("%s was launched although dependency %s can never be satisfied", name, why)})
			} else if sb < 0 {
				if final != "Skipped" {
					out = append(out, V{"C05", "not-skipped", f("%s has unsatisfiable dependency %s but its final status is %q", name, why, final)})
				} else if fst != nil && fst.Code == 0 {
					out = append(out, V{"C05", "skipped-exit-zero", f("%s is Skipped but reports exit code 0", name)})
				}
			}
			if sp.ExitOnSkipped && final == "Skipped" && h.RunReturned {
				// the skip is one of the triggers; the result must come from the trigger set
				out = append(out, x.resultVerdict("C05")...)
			}
		}
		if allSat && !touched && sb < 0 {
			if final == "Skipped" {
				out = append(out, V{"C05", "skipped-without-reason", f("%s is Skipped although every dependency met its condition", name)})
			} else if launches == 0 && !fails && final != "Error" {
				out = append(out, V{"C05", "never-launched", f("%s was never launched although every dependency met its condition (final status %q)", name, final)})
			}
		}
	}
	return out
}

// ---------------------------------------------------------------- C12

func C12(x *Idx) []V {
	var out []V
	h := x.H
	if !h.Scenario.Ordered || x.Touched() {
		return nil
	}
	sb := x.ShutdownBegin()
	if sb < 0 {
		return nil
	}
	// alive at the beginning of the shutdown
	aliveAt := map[string]*Inst{}
	for _, l := range x.Insts {
		for _, in := range l {
			if in.Launch < sb && (in.Exit < 0 || in.Exit > sb) {
				aliveAt[in.Proc] = in
			}
		}
	}
	for i := sb; i < x.End; i++ {
		e := x.Ev[i]
		if e.Kind != world.EvStop {
			continue
		}
		p := e.Proc
		for _, sp := range h.Scenario.Procs {
			for _, d := range sp.Deps {
				if d.On != p {
					continue
				}
				// every replica of a replicated dependent counts
				names := []string{sp.Name}
				if sp.Replicas >= 2 {
					names = names[:0]
					for r := 0; r < sp.Replicas; r++ {
						names = append(names, f("%s-%0*d", sp.Name, len(f("%d", sp.Replicas)), r))
					}
				}
				for _, dn := range names {
					q := aliveAt[dn]
					if q == nil {
						continue
					}
					// the dependent was running when the shutdown began and is still alive now
					if q.Exit < 0 || q.Exit > i {
						out = append(out, V{"C12", "dependency-stopped-first", f("%s received its stop signal at seq %d while its dependent %s (inst %d) was still alive", p, i, dn, q.Inst)})
					}
				}
			}
		}
	}
	for i, e := range x.Ev {
		if e.Kind == world.EvAPI && e.Text == sc.OpShutdown && x.RetOf(i) < 0 && h.Finished && h.Busy == "" {
			out = append(out, V{"C12", "ordered-shutdown-never-returned", f("ordered ShutDownProject called at seq %d never returned", i)})
		}
	}
	return out
}
