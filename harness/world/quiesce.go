package world

import (
	"bytes"
	"runtime"
	"strings"
	"sync"
	"time"
)

// GoroutineInfo is one parsed entry of a full goroutine dump.
type GoroutineInfo struct {
	ID    string
	State string
	Body  string
}

var (
	dumpMu  sync.Mutex
	dumpBuf = make([]byte, 256<<10)
)

func dumpAll() []GoroutineInfo {
	dumpMu.Lock()
	defer dumpMu.Unlock()
	var buf []byte
	for {
		n := runtime.Stack(dumpBuf, true)
		if n < len(dumpBuf) {
			buf = dumpBuf[:n]
			break
		}
		dumpBuf = make([]byte, 2*len(dumpBuf))
	}
	var out []GoroutineInfo
	for _, blk := range bytes.Split(buf, []byte("\n\n")) {
		s := string(blk)
		if !strings.HasPrefix(s, "goroutine ") {
			continue
		}
		nl := strings.IndexByte(s, '\n')
		if nl < 0 {
			nl = len(s)
		}
		hdr := s[:nl]
		lb, rb := strings.IndexByte(hdr, '['), strings.LastIndexByte(hdr, ']')
		if lb < 0 || rb < lb {
			continue
		}
		st := hdr[lb+1 : rb]
		if c := strings.IndexByte(st, ','); c >= 0 {
			st = st[:c]
		}
		out = append(out, GoroutineInfo{ID: strings.Fields(hdr)[1], State: st, Body: s[nl:]})
	}
	return out
}

const sutPath = "process-compose/src/"
const harnessPath = "verif/harness/"

// busyReason says why a goroutine may still make progress on its own, "" if it is parked
// waiting for the harness (or for another goroutine).
func busyReason(g GoroutineInfo) string {
	ours := strings.Contains(g.Body, sutPath) || strings.Contains(g.Body, harnessPath)
	switch g.State {
	case "syscall", "sleep", "IO wait":
		if strings.Contains(g.Body, "os/exec.") {
			return g.State // waiting for a real child process (env_cmds, shutdown commands, exec probes)
		}
		if !ours {
			return ""
		}
		if g.State == "sleep" && strings.Contains(g.Body, "health.(*Prober).Start") {
			return "" // initial-delay sleeper of a probe
		}
		return g.State
	case "select":
		// the restart back-off: select in Process.run on time.After
		if topSUTFrame(g.Body) == "app.(*Process).run" {
			return "backoff"
		}
		return ""
	case "chan receive":
		if strings.Contains(g.Body, "app.(*Process).forceKillOnTimeout") {
			return "killtimer"
		}
		return ""
	case "semacquire":
		// a sync primitive parks with sync.runtime_Semacquire* on top; anything else is a
		// runtime-internal semaphore (e.g. a GC start waiting for the end of this very
		// stop-the-world dump) and will move on by itself
		if strings.HasPrefix(strings.TrimLeft(g.Body, "\n"), "sync.") {
			return ""
		}
		return "active"
	case "chan send", "select (no cases)", "chan receive (nil chan)", "chan send (nil chan)",
		"sync.Cond.Wait", "sync.Mutex.Lock", "sync.RWMutex.RLock", "sync.RWMutex.Lock", "sync.WaitGroup.Wait",
		"finalizer wait", "force gc (idle)", "GC sweep wait", "GC scavenge wait", "GC worker (idle)", "trace reader (blocked)", "debug call":
		return ""
	}
	// running, runnable, preempted, GC assist wait, copystack, ... : may still move by itself
	return "active"
}

// topSUTFrame returns the innermost frame of src/app in the stack, shortened.
func topSUTFrame(body string) string {
	for _, ln := range strings.Split(body, "\n") {
		if strings.HasPrefix(ln, "\t") || ln == "" {
			continue
		}
		if i := strings.Index(ln, sutPath); i >= 0 {
			f := ln[i+len(sutPath):]
			if p := strings.LastIndexByte(f, '('); p > 0 {
				f = f[:p]
			}
			return f
		}
	}
	return ""
}

// Settle waits until no goroutine other than the caller can make progress without a
// further harness action (all parked; no back-off or kill timer pending). It returns
// false with a goroutine dump of the busy goroutines if that is not reached in maxWait.
func Settle(maxWait time.Duration) (bool, string) {
	ok, _, busy := SettleDump(maxWait)
	return ok, busy
}

// SettleDump is Settle returning also the parsed dump taken at the quiescent instant.
func SettleDump(maxWait time.Duration) (bool, []GoroutineInfo, string) {
	deadline := time.Now().Add(maxWait)
	spins := 0
	for {
		gs := dumpAll()
		busy, reason := "", ""
		for i, g := range gs {
			if i == 0 {
				continue // the caller
			}
			if r := busyReason(g); r != "" {
				busy += "goroutine " + g.ID + " [" + g.State + "] busy=" + r + g.Body + "\n\n"
				reason = r
				break
			}
		}
		if busy == "" {
			LastSettled = gs
			return true, gs[1:], ""
		}
		if time.Now().After(deadline) {
			return false, gs[1:], busy
		}
		spins++
		switch {
		case reason != "active":
			time.Sleep(500 * time.Microsecond) // a timer is pending
		case spins < 20:
			runtime.Gosched()
		default:
			time.Sleep(50 * time.Microsecond)
		}
	}
}

// SUTGoroutines returns the dump entries that have frames of the system under test.
func SUTGoroutines() []GoroutineInfo {
	var out []GoroutineInfo
	for i, g := range dumpAll() {
		if i == 0 {
			continue
		}
		if strings.Contains(g.Body, sutPath) {
			out = append(out, g)
		}
	}
	return out
}

// LastSettled is the dump on which the last successful Settle was decided (debugging aid).
var LastSettled []GoroutineInfo

// DumpText renders the current goroutine dump (debugging aid).
func DumpText() string {
	var b strings.Builder
	b.WriteString("---- dump on which Settle decided:\n")
	for _, g := range LastSettled {
		b.WriteString("goroutine " + g.ID + " [" + g.State + "] busy=" + busyReason(g) + firstN(g.Body, 400) + "\n\n")
	}
	b.WriteString("---- now:\n")
	for _, g := range dumpAll() {
		b.WriteString("goroutine " + g.ID + " [" + g.State + "] busy=" + busyReason(g) + firstN(g.Body, 400) + "\n\n")
	}
	return b.String()
}

func firstN(s string, n int) string {
	if len(s) > n {
		return s[:n]
	}
	return s
}
