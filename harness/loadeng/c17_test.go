package loadeng

import (
	"errors"
	"fmt"
	"os"
	"path/filepath"
	"sort"
	"strings"
	"testing"

	"github.com/f1bonacc1/process-compose/src/loader"
	"pgregory.net/rapid"

	"verif/harness/pbt"
	"verif/harness/sc"
	"verif/harness/world"
)

// ---------------------------------------------------------------- load-time expansion

// Piece of a value: literal text, a reference ($N or ${N}) or an escaped dollar.
type Piece struct {
	Kind string `json:"k"` // lit, var, brace, esc
	Text string `json:"t"`
}

type ExpCase struct {
	Env     map[string]string `json:"env"`    // process environment for the load (VRF_ names)
	DotEnv  map[string]string `json:"dotenv"` // .env file content
	NoDot   bool              `json:"no_dotenv"`
	Disable bool              `json:"disable_env_expansion"`
	Command []Piece           `json:"command"`
	WorkDir []Piece           `json:"workdir"`
	EnvVal  []Piece           `json:"envval"`
	Probe   []Piece           `json:"probe"`
	GEnvVal []Piece           `json:"genvval"`
	// map keys of the file: the name of a second process (also a depends_on key of p) and a vars key
	ProcKey []Piece `json:"prockey,omitempty"`
	VarKey  []Piece `json:"varkey,omitempty"`
}

func raw(ps []Piece) string {
	var b strings.Builder
	for _, p := range ps {
		switch p.Kind {
		case "lit":
			b.WriteString(p.Text)
		case "var":
			b.WriteString("$" + p.Text)
		case "brace":
			b.WriteString("${" + p.Text + "}")
		case "esc":
			b.WriteString("$$")
		}
	}
	return b.String()
}

// expand is the reference: `$$` is a literal dollar, references take the value or nothing.
func expand(ps []Piece, env map[string]string, disabled bool) string {
	if disabled {
		return raw(ps)
	}
	var b strings.Builder
	for _, p := range ps {
		switch p.Kind {
		case "lit":
			b.WriteString(p.Text)
		case "var", "brace":
			b.WriteString(env[p.Text])
		case "esc":
			b.WriteString("$")
		}
	}
	return b.String()
}

func checkExp(c ExpCase) pbt.Verdict {
	var v pbt.Verdict
	d, err := os.MkdirTemp(dir(), "exp-")
	if err != nil {
		v.Skip = true
		return v
	}
	defer os.RemoveAll(d)
	// controlled environment: only VRF_ names are touched, all removed afterwards
	var touched []string
	defer func() {
		for _, k := range touched {
			os.Unsetenv(k)
		}
	}()
	for k, val := range c.Env {
		os.Setenv(k, val)
		touched = append(touched, k)
	}
	for k := range c.DotEnv {
		touched = append(touched, k)
	}
	var de strings.Builder
	for k, val := range c.DotEnv {
		fmt.Fprintf(&de, "%s=%s\n", k, val)
	}
	dot := filepath.Join(d, ".env")
	_ = os.WriteFile(dot, []byte(de.String()), 0o644)
	var y strings.Builder
	y.WriteString("version: \"0.5\"\n")
	if c.Disable {
		y.WriteString("disable_env_expansion: true\n")
	}
	fmt.Fprintf(&y, "environment:\n  - 'G=%s'\n", raw(c.GEnvVal))
	if len(c.VarKey) > 0 {
		fmt.Fprintf(&y, "vars:\n  '%s': vv\n", raw(c.VarKey))
	}
	fmt.Fprintf(&y, "processes:\n  p:\n    command: '%s'\n    working_dir: '%s'\n    environment:\n      - 'K=%s'\n    readiness_probe:\n      exec:\n        command: '%s'\n",
		raw(c.Command), raw(c.WorkDir), raw(c.EnvVal), raw(c.Probe))
	if len(c.ProcKey) > 0 {
		fmt.Fprintf(&y, "    depends_on:\n      '%s':\n        condition: process_started\n  '%s':\n    command: 'second'\n", raw(c.ProcKey), raw(c.ProcKey))
	}
	f := filepath.Join(d, "pc.yaml")
	_ = os.WriteFile(f, []byte(y.String()), 0o644)
	lo := &loader.LoaderOptions{FileNames: []string{f}, EnvFileNames: []string{dot}, IsInternalLoader: true}
	lo.DisableDotenv(c.NoDot)
	prj, err := loader.Load(lo)
	if err != nil {
		v.Violations = append(v.Violations, fmt.Sprintf("load failed: %v\n%s", err, y.String()))
		return v
	}
	// effective environment for the expansion: process environment, then .env for names not set
	eff := map[string]string{}
	for k, val := range c.Env {
		eff[k] = val
	}
	if !c.NoDot {
		for k, val := range c.DotEnv {
			if _, ok := eff[k]; !ok {
				eff[k] = val
			}
		}
	}
	p := prj.Processes["p"]
	type fld struct {
		what string
		got  string
		ps   []Piece
	}
	genv, penv, probe := "", "", ""
	if len(prj.Environment) > 0 {
		genv = strings.TrimPrefix(prj.Environment[0], "G=")
	}
	if len(p.Environment) > 0 {
		penv = strings.TrimPrefix(p.Environment[0], "K=")
	}
	if p.ReadinessProbe != nil && p.ReadinessProbe.Exec != nil {
		probe = p.ReadinessProbe.Exec.Command
	}
	for _, x := range []fld{{"command", p.Command, c.Command}, {"working_dir", p.WorkingDir, c.WorkDir}, {"process environment value", penv, c.EnvVal},
		{"probe command", probe, c.Probe}, {"global environment value", genv, c.GEnvVal}} {
		if want := expand(x.ps, eff, c.Disable); x.got != want {
			v.Violations = append(v.Violations, fmt.Sprintf("%s: file text %q loaded as %q, want %q (env %v, dotenv %v, no_dotenv=%v, expansion disabled=%v)", x.what, raw(x.ps), x.got, want, c.Env, c.DotEnv, c.NoDot, c.Disable))
			return v
		}
	}
	// map keys are part of "the configuration" too: exactly the expanded key exists, once
	if len(c.ProcKey) > 0 {
		want := expand(c.ProcKey, eff, c.Disable)
		var have []string
		for k := range prj.Processes {
			have = append(have, k)
		}
		sort.Strings(have)
		if _, ok := prj.Processes[want]; !ok || len(prj.Processes) != 2 {
			v.Violations = append(v.Violations, fmt.Sprintf("process key %q: loaded processes %q, want exactly p and %q (env %v, dotenv %v, no_dotenv=%v, expansion disabled=%v)", raw(c.ProcKey), have, want, c.Env, c.DotEnv, c.NoDot, c.Disable))
			return v
		}
		if _, ok := p.DependsOn[want]; !ok || len(p.DependsOn) != 1 {
			v.Violations = append(v.Violations, fmt.Sprintf("depends_on key %q: loaded as %v, want exactly %q", raw(c.ProcKey), p.DependsOn, want))
			return v
		}
		v.Labels = append(v.Labels, "dollar-in-key")
	}
	if len(c.VarKey) > 0 {
		want := expand(c.VarKey, eff, c.Disable)
		if _, ok := prj.Vars[want]; !ok || len(prj.Vars) != 1 {
			v.Violations = append(v.Violations, fmt.Sprintf("vars key %q: loaded vars %v, want exactly the key %q", raw(c.VarKey), prj.Vars, want))
			return v
		}
	}
	// escape adjacent to a reference?
	for _, ps := range [][]Piece{c.Command, c.WorkDir, c.EnvVal, c.Probe, c.GEnvVal} {
		for i := 0; i+1 < len(ps); i++ {
			if ps[i].Kind == "esc" && (ps[i+1].Kind == "var" || ps[i+1].Kind == "brace" || ps[i+1].Kind == "esc") {
				v.NonTrivial = true
			}
		}
	}
	if c.Disable {
		v.Labels = append(v.Labels, "expansion-disabled")
	}
	if len(c.DotEnv) > 0 && !c.NoDot {
		v.Labels = append(v.Labels, "dotenv")
	}
	return v
}

var vrfNames = []string{"VRF_A", "VRF_B1", "VRF_LONG_NAME", "VRF__X"}
var inert = []string{"v", "val-1", "a/b", "x.y", "", "007"}

func genPieces(t *rapid.T) []Piece {
	n := pbt.Range(t, 1, 5)
	var out []Piece
	for i := 0; i < n; i++ {
		switch pbt.Pick(t, []string{"lit", "var", "brace", "esc", "lit"}) {
		case "lit":
			out = append(out, Piece{"lit", pbt.Pick(t, []string{"a", "-", "/x/", " ", "b.c", "_"})})
		case "var":
			out = append(out, Piece{"var", pbt.Pick(t, vrfNames)})
			// a name would swallow following name characters: separate with a non-name literal
			out = append(out, Piece{"lit", pbt.Pick(t, []string{"-", "/", " ", "."})})
		case "brace":
			out = append(out, Piece{"brace", pbt.Pick(t, vrfNames)})
		case "esc":
			out = append(out, Piece{"esc", ""})
			if pbt.Pct(t, 40) {
				// `$$NAME`: a literal dollar followed by plain text that looks like a name
				out = append(out, Piece{"lit", pbt.Pick(t, []string{"VRF_A", "{VRF_A}", "HOME", "x"})})
			}
		}
	}
	return out
}

func genExp(t *rapid.T) ExpCase {
	c := ExpCase{Env: map[string]string{}, DotEnv: map[string]string{}}
	for _, n := range vrfNames {
		if pbt.Pct(t, 60) {
			c.Env[n] = pbt.Pick(t, inert)
		}
		if pbt.Pct(t, 35) {
			c.DotEnv[n] = pbt.Pick(t, []string{"dot", "dv-2", "d/e"})
		}
	}
	c.NoDot = pbt.Pct(t, 25)
	c.Disable = pbt.Pct(t, 20)
	c.Command = append([]Piece{{"lit", "run "}}, genPieces(t)...)
	c.WorkDir = append([]Piece{{"lit", "/w/"}}, genPieces(t)...)
	c.EnvVal = genPieces(t)
	c.Probe = append([]Piece{{"lit", "chk "}}, genPieces(t)...)
	c.GEnvVal = genPieces(t)
	if pbt.Pct(t, 50) {
		c.ProcKey = append([]Piece{{"lit", "q"}}, genPieces(t)...)
	}
	if pbt.Pct(t, 30) {
		c.VarKey = append([]Piece{{"lit", "V"}}, genPieces(t)...)
	}
	return c
}

func TestC17Expand(t *testing.T) {
	pbt.Run(t, pbt.Spec[ExpCase]{Prop: "C17", Test: "TestC17Expand", Engine: "loadeng", Gen: genExp, Check: checkExp,
		Sample: func(c ExpCase) any {
			return map[string]any{"command": raw(c.Command), "working_dir": raw(c.WorkDir), "env_value": raw(c.EnvVal), "probe": raw(c.Probe), "env": c.Env, "dotenv": c.DotEnv, "disabled": c.Disable, "no_dotenv": c.NoDot}
		}})
}

// ---------------------------------------------------------------- launch-time environment

type LaunchCase struct {
	Inherited map[string]string `json:"inherited"`
	EnvCmds   map[string]string `json:"env_cmds"` // name -> value printed by the command
	Global    []string          `json:"global"`
	Procs     []sc.ProcSpec     `json:"procs"`
}

func lastValue(env []string, key string) (string, bool) {
	val, ok := "", false
	for _, e := range env {
		if strings.HasPrefix(e, key+"=") {
			val, ok = e[len(key)+1:], true
		}
	}
	return val, ok
}

func checkLaunch(c LaunchCase) pbt.Verdict {
	var v pbt.Verdict
	var touched []string
	defer func() {
		for _, k := range touched {
			os.Unsetenv(k)
		}
	}()
	for k, val := range c.Inherited {
		os.Setenv(k, val)
		touched = append(touched, k)
	}
	var top strings.Builder
	if len(c.Global) > 0 {
		top.WriteString("environment:\n")
		for _, e := range c.Global {
			fmt.Fprintf(&top, "  - '%s'\n", e)
		}
	}
	if len(c.EnvCmds) > 0 {
		top.WriteString("env_cmds:\n")
		for k, val := range c.EnvCmds {
			fmt.Fprintf(&top, "  %s: \"printf '  %s \\\\n'\"\n", k, val)
		}
	}
	s := &sc.Scenario{Procs: c.Procs, Top: top.String(), FinishRounds: 10}
	e, err := sc.Begin(s)
	if errors.Is(err, sc.ErrLeftover) {
		v.Skip = true
		return v
	}
	if err != nil {
		v.Violations = append(v.Violations, "load failed: "+err.Error()+"\n"+sc.YAML(c.Procs, false, 0, top.String()))
		return v
	}
	cmds := e.W.AllCmds()
	if h := e.Finish(); h.Busy != "" {
		v.Skip = true
		return v
	}
	if len(cmds) == 0 {
		v.Violations = append(v.Violations, "nothing was launched")
		return v
	}
	// definitions per level
	level := func(list []string) map[string]string {
		m := map[string]string{}
		for _, x := range list {
			if i := strings.IndexByte(x, '='); i > 0 {
				m[x[:i]] = x[i+1:]
			}
		}
		return m
	}
	global := level(c.Global)
	multi := false
	seen := map[string]bool{}
	for _, cmd := range cmds {
		sp := s.Spec(cmd.Name)
		if sp == nil {
			continue
		}
		seen[cmd.Replica] = true
		if got, _ := lastValue(cmd.Env, "PC_PROC_NAME"); got != cmd.Name {
			v.Violations = append(v.Violations, fmt.Sprintf("%s: PC_PROC_NAME=%q, want %q", cmd.Replica, got, cmd.Name))
			return v
		}
		if got, _ := lastValue(cmd.Env, "PC_REPLICA_NUM"); got != fmt.Sprint(cmd.RepNum) {
			v.Violations = append(v.Violations, fmt.Sprintf("%s: PC_REPLICA_NUM=%q, want %d", cmd.Replica, got, cmd.RepNum))
			return v
		}
		n := sp.Replicas
		if n < 1 {
			n = 1
		}
		if want := refReplicaName(sp.Name, n, cmd.RepNum); cmd.Replica != want {
			v.Violations = append(v.Violations, fmt.Sprintf("replica number %d of %s runs under the name %q, want %q", cmd.RepNum, sp.Name, cmd.Replica, want))
			return v
		}
		if cmd.Dir != sp.WorkingDir {
			v.Violations = append(v.Violations, fmt.Sprintf("%s: working directory %q, configured %q", cmd.Replica, cmd.Dir, sp.WorkingDir))
			return v
		}
		local := level(sp.Env)
		keys := map[string]bool{}
		for k := range c.Inherited {
			keys[k] = true
		}
		for k := range c.EnvCmds {
			keys[k] = true
		}
		for k := range global {
			keys[k] = true
		}
		for k := range local {
			keys[k] = true
		}
		for k := range keys {
			want, src, levels := "", "", 0
			if x, ok := c.Inherited[k]; ok {
				want, src = x, "inherited"
				levels++
			}
			// env_cmds results are appended to the global environment: both are "global"
			_, inCmd := c.EnvCmds[k]
			_, inGlob := global[k]
			switch {
			case inCmd && inGlob:
				levels++
				want, src = "", "ambiguous" // two global definitions: the statement does not order them
			case inCmd:
				want, src = strings.TrimSpace(c.EnvCmds[k]), "env_cmds"
				levels++
			case inGlob:
				want, src = global[k], "global"
				levels++
			}
			if x, ok := local[k]; ok {
				want, src = x, "process"
				levels++
			}
			if levels >= 2 {
				multi = true
			}
			if src == "ambiguous" {
				continue
			}
			got, ok := lastValue(cmd.Env, k)
			if !ok || got != want {
				v.Violations = append(v.Violations, fmt.Sprintf("%s: effective value of %s is %q (present=%v), want %q from the %s level; inherited=%v env_cmds=%v global=%v process=%v", cmd.Replica, k, got, ok, want, src, c.Inherited, c.EnvCmds, c.Global, sp.Env))
				return v
			}
		}
	}
	for _, sp := range c.Procs {
		n := sp.Replicas
		if n < 1 {
			n = 1
		}
		for r := 0; r < n; r++ {
			if !seen[refReplicaName(sp.Name, n, r)] {
				v.Violations = append(v.Violations, fmt.Sprintf("replica %d of %s was never launched", r, sp.Name))
				return v
			}
		}
		if n > 1 {
			v.Labels = append(v.Labels, "replicas")
		}
	}
	v.NonTrivial = multi
	_ = world.EvLaunch
	return v
}

// names that are prefixes of one another (and of the injected PC_ variables): a lookup by anything
// but the exact name shows
var lkeys = []string{"VRF_K1", "VRF_K2", "VRF_K3", "VRF_K", "VRF_K1_X", "PC"}

func genLaunch(t *rapid.T) LaunchCase {
	c := LaunchCase{Inherited: map[string]string{}, EnvCmds: map[string]string{}}
	for _, k := range lkeys {
		if pbt.Pct(t, 45) {
			c.Inherited[k] = "inh-" + pbt.Pick(t, []string{"1", "2"})
		}
		if pbt.Pct(t, 30) {
			// the empty string is a value like any other: the variable is set, and it shadows the inherited one
			c.EnvCmds[k] = pbt.Pick(t, []string{"cmd-1", "cmd-2", ""})
		}
		if pbt.Pct(t, 45) {
			c.Global = append(c.Global, k+"="+pbt.Pick(t, []string{"glob-1", "glob-2", "glob-a=b", ""}))
		}
	}
	n := pbt.Range(t, 1, 3)
	for i := 0; i < n; i++ {
		p := sc.ProcSpec{Name: fmt.Sprintf("p%d", i), WorkingDir: pbt.Pick(t, []string{"", "/tmp", "/"})}
		if pbt.Pct(t, 35) {
			p.Replicas = pbt.Pick(t, []int{2, 3, 10})
		}
		for _, k := range lkeys {
			if pbt.Pct(t, 45) {
				p.Env = append(p.Env, k+"=proc-"+pbt.Pick(t, []string{"1", "2", ""}))
			}
		}
		c.Procs = append(c.Procs, p)
	}
	return c
}

func TestC17Launch(t *testing.T) {
	pbt.Run(t, pbt.Spec[LaunchCase]{Prop: "C17", Test: "TestC17Launch", Engine: "loadeng", Gen: genLaunch, Check: checkLaunch})
}
