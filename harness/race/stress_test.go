package race

import (
	"fmt"
	"os"
	"testing"
	"time"

	"github.com/f1bonacc1/process-compose/src/app"
	"github.com/f1bonacc1/process-compose/src/command"
	"github.com/f1bonacc1/process-compose/src/types"

	"verif/harness/sc"
	"verif/harness/world"
)

// triage tool, not a check
func TestStressWindDown(t *testing.T) {
	if os.Getenv("VERIF_STRESS") == "" {
		t.Skip()
	}
	for iter := 0; iter < 1500; iter++ {
		dir, _ := os.MkdirTemp(sc.TmpRoot(), "st-")
		prj, err := sc.LoadProject(dir, raceProcs(2), false, 0)
		if err != nil {
			t.Fatal(err)
		}
		w := world.New()
		app.SetVerifHooks(&app.VerifHooks{
			Commander: func(conf *types.ProcessConfig, exe string, args []string) command.Commander {
				return w.NewCmd(conf.Name, conf.ReplicaName, conf.ReplicaNum, exe, args)
			},
			State:    func(name, state string) { w.Record(world.Event{Kind: world.EvState, Proc: name, Text: state}) },
			TimeUnit: 2 * time.Millisecond, InjectedProbes: true,
		})
		r, _ := app.NewProjectRunner((&app.ProjectOpts{}).WithProject(prj).WithIsTuiOn(true))
		runDone := make(chan struct{})
		go func() { _ = r.Run(); close(runDone) }()
		w.WaitFor(5*time.Second, func() bool { return len(w.EventsLocked()) > 0 })
		time.Sleep(time.Duration(iter%5) * time.Millisecond)
		sd := make(chan struct{})
		w.Record(world.Event{Kind: world.EvAPI, Text: "shutdown"})
		go func() {
			_ = r.ShutDownProject()
			w.Record(world.Event{Kind: world.EvAPIRet, Text: "shutdown"})
			close(sd)
		}()
		deadline := time.After(6 * time.Second)
		ok := false
	loop:
		for {
			for _, cmd := range w.LiveCmds("") {
				cmd.Exit(0)
			}
			select {
			case <-runDone:
				ok = true
				break loop
			case <-deadline:
				break loop
			case <-time.After(2 * time.Millisecond):
			}
		}
		app.SetVerifHooks(nil)
		os.RemoveAll(dir)
		if !ok {
			evs := w.Events()
			msg := ""
			for i, ev := range evs {
				if i > 120 {
					break
				}
				msg += fmt.Sprintf("%d %s %s inst=%d %s\n", ev.Seq, ev.Kind, ev.Proc, ev.Inst, ev.Text)
			}
			t.Fatalf("iter %d: Run() did not return; %d events\n%s", iter, len(evs), msg)
		}
		<-sd
	}
}
