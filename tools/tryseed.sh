#!/bin/bash
# tools/tryseed.sh <seeded dir name or path with patch.diff> <check id> [seeds...]: run a check against a scratch worktree carrying the patch
d=$1; id=$2; shift 2; seeds=${@:-1}
[ -f "$d/patch.diff" ] || d=/verif/seeded/$d
w=$(mktemp -d /tmp/tryseed-XXXX)
git -C /repo worktree add -q --detach $w/repo HEAD && git -C $w/repo apply $d/patch.diff || exit 3
for s in $seeds; do VERIF_REPO=$w/repo VERIF_SEED=$s /verif/check $id 2>&1 | grep -E "VIOLATION|quick seed|INCONCL" | cut -c1-260 | head -3; done
git -C /repo worktree remove --force $w/repo; rm -rf $w
