LIFE_TEXT = ("generated-input search (rapid, stateful generation against the live ProjectRunner behind a fake commander) "
             "against a trace oracle over ground-truth events; no violation on the explored cases, not a proof of absence")
LIFE_NOTE = ("trusts the fake commander seam, the goroutine-dump quiescence detector and the trace oracle; interleavings are "
             "those reachable by step order, named yield-point holds and natural scheduling")
LIFE_TECH = "property-based testing (rapid): stateful scenario generation + trace oracle over a ground-truth event log"


def life():
    return {'engine': 'lifecycle', 'level_text': LIFE_TEXT, 'level_note': LIFE_NOTE, 'technique': LIFE_TECH}


META = {p: life() for p in ['C01', 'C02', 'C03', 'C04', 'C05', 'C08', 'C09', 'C12']}
META['C18'] = {
    'engine': 'logbuf',
    'level_text': "exhaustive enumeration of small (length, offset, limit) windows plus rapid state-machine, concurrent and websocket campaigns against a slice model of the log; exploration, not proof",
    'level_note': "model = slice of all written lines; the websocket path runs through api.InitRoutes over a minimal IProject; the stalled-follower defect is a recorded known finding",
    'technique': "property-based testing (rapid state machine + exhaustive small-scope enumeration) against a reference model",
}

LOAD_NOTE = "trusts the reference implementations in harness/loadeng (Kahn, merge, text/template rendering, expander), written from the documentation; file contents are restricted to YAML-inert quoting so that the comparison is about the loader, not about YAML"
META['C07'] = {'engine': 'loadeng', 'level_text': "exhaustive enumeration of all digraphs up to 4 nodes plus rapid campaigns on larger plans against reference graph algorithms, and the launched set behind the fake commander; exploration", 'level_note': LOAD_NOTE, 'technique': "exhaustive small-scope enumeration + property-based testing (rapid) against a reference model"}
META['C15'] = {'engine': 'loadeng', 'level_text': "rapid campaigns over generated file chains against a reference merge, plus the extends/explicit metamorphic relation; exploration", 'level_note': LOAD_NOTE, 'technique': "property-based testing (rapid): differential against a reference merge + metamorphic relation"}
META['C16'] = {'engine': 'loadeng', 'level_text': "rapid campaigns over generated templated configurations: determinism across repeated loads, defaults, per-replica reference rendering; exploration", 'level_note': LOAD_NOTE, 'technique': "property-based testing (rapid): determinism + differential against reference rendering"}
META['C17'] = {'engine': 'loadeng', 'level_text': "rapid campaigns: reference expander on loaded values under a controlled environment, and a precedence model on the environment handed to the commander; exploration", 'level_note': LOAD_NOTE + "; launch part uses the fake commander seam to read the exact environment", 'technique': "property-based testing (rapid): differential against a reference expander / precedence model"}

META['C11'] = {'engine': 'lifecycle', 'level_text': "rapid campaigns over output scripts (line counts, lengths, stream mix, missing final newline, bursts, restarts, logger configurations) compared line by line with the in-memory log and the log file; exploration", 'level_note': LIFE_NOTE, 'technique': "property-based testing (rapid): scripted output vs. captured log, exact comparison"}
META['C13'] = {'engine': 'lifecycle', 'level_text': "rapid campaigns over sequences of scale requests, differential against a fresh load with the same replica count plus ground truth of launches/stops per replica; exploration", 'level_note': LIFE_NOTE, 'technique': "property-based testing (rapid): request sequences, differential against a fresh load + ground-truth events"}

META['C14'] = {'engine': 'lifecycle', 'level_text': "rapid campaigns over pairs and sequences (P, P') of generated configurations, reference classification + ground truth of which instances were kept, terminated and launched with what; exploration", 'level_note': LIFE_NOTE, 'technique': "property-based testing (rapid): generated configuration pairs, reference classification + ground-truth events"}

META['C10'] = {'engine': 'probes', 'level_text': "rapid campaigns: legality predicate over probe parameters, a step-by-step health/stop/relaunch model under injected probe outcomes, and the real prober against a scripted HTTP target; exploration", 'level_note': LIFE_NOTE + "; part (2) injects probe outcomes through the probe-result hook, part (3) runs the unmodified prober in real time", 'technique': "property-based testing (rapid): validity predicate + model-based checking of probe outcome sequences"}

META['C19'] = {'engine': 'rest', 'level_text': "rapid campaigns over request sequences against an in-process server: three-way differential (REST, direct call, bundled client) for reads, outcome-class and post-state checks for writes, status-class predicate for invalid requests; exploration", 'level_note': LIFE_NOTE, 'technique': "property-based testing (rapid): request sequences, differential REST vs direct call vs client + status predicate"}

META['C06'] = {'engine': 'osproc', 'level_text': "rapid campaigns over shutdown parameters x real process trees x stop triggers (API and OS signals to the production binary), judged from signal records written by the children, /proc and monotonic time; exploration", 'level_note': "no hooks on this path: real exec, process groups and pipes; real-time bounds are one-sided (sound), slowness is inconclusive", 'technique': "property-based testing (rapid) with real child processes: generated configurations and process trees, ground truth from the children"}

META['C20'] = {'engine': 'race', 'level_text': "rapid campaigns of concurrent API operation sets (queries, log subscriptions, websocket log streams through the real routes, start/stop/restart, scale, update) against churning processes under the Go race detector, with crash and watchdog detection; exploration, and the weakest of the twenty: the unchanged tree already races in 53 functions, which are recorded findings, so a race is reported only if it involves another function or - inside a recorded function - a source line that function did not have when it was recorded; crashes are judged by class and site; blocked calls by a 20 s watchdog", 'level_note': "race detector semantics (only interleavings that occur); fake commander seam; identity of a finding = racy function + source line text (known_race_sites.json) / crash class and site", 'technique': "property-based testing (rapid) of concurrent operation sets under the race detector"}

NOT_APPLICABLE = {}

ENGINES = [
    {"name": "lifecycle", "path": "harness/lifecycle", "serves_properties": ['C01', 'C02', 'C03', 'C04', 'C05', 'C08', 'C09', 'C11', 'C12', 'C13', 'C14'],
     "kind_free_text": "rapid stateful generation driving app.ProjectRunner through a fake commander (build tag verif); trace oracles in harness/oracle"},
    {"name": "logbuf", "path": "harness/logbuf", "serves_properties": ['C18'],
     "kind_free_text": "rapid + exhaustive enumeration over pclog.ProcessLogBuffer and the websocket log stream"},
    {"name": "race", "path": "harness/race", "serves_properties": ['C20'],
     "kind_free_text": "-race build; concurrent API operation sets against churning fake processes"},
    {"name": "osproc", "path": "harness/osproc", "serves_properties": ['C06'],
     "kind_free_text": "real bash process trees under the unhooked runner and the production binary"},
    {"name": "rest", "path": "harness/rest", "serves_properties": ['C19'],
     "kind_free_text": "rapid request sequences against httptest + api.InitRoutes over a live runner, with client.PcClient"},
    {"name": "probes", "path": "harness/probes", "serves_properties": ['C10'],
     "kind_free_text": "rapid campaigns over health.Probe / health.Prober and, in harness/lifecycle, injected probe outcomes"},
    {"name": "loadeng", "path": "harness/loadeng", "serves_properties": ['C07', 'C15', 'C16', 'C17'],
     "kind_free_text": "rapid + exhaustive enumeration over loader.Load / NewProjectRunner with reference implementations"},
]
