#!/usr/bin/env python3
import json, sys, glob, jsonschema
jsonschema.validate(json.load(open('/verif/MANIFEST.json')), json.load(open('/root/.vp/MANIFEST.schema.json')))
print('manifest ok')
sch = json.load(open('/root/.vp/EVIDENCE.schema.json'))
for f in sorted(glob.glob('/verif/evidence/*.json')):
    jsonschema.validate(json.load(open(f)), sch)
    e = json.load(open(f))
    print(f, 'ok', e['tier'], e['coverage']['evaluations'], e['coverage']['distinct_nontrivial'], e['wall_s'], 'viol', e.get('violations'))
