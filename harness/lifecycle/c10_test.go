package lifecycle

import (
	"errors"
	"fmt"
	"testing"

	"pgregory.net/rapid"

	"verif/harness/pbt"
	"verif/harness/sc"
	"verif/harness/world"
)

// ProbeCase: one probed process (plus a process_healthy dependent) driven by injected probe outcomes.
type ProbeCase struct {
	Policy      string    `json:"policy"`
	MaxRestarts int       `json:"max_restarts"`
	Daemon      bool      `json:"daemon"`
	Steps       []sc.Step `json:"steps"`
}

func probeProcs(c ProbeCase) []sc.ProcSpec {
	p := sc.ProcSpec{Name: "svc", Restart: c.Policy, MaxRestarts: c.MaxRestarts, Extra: map[string]string{}}
	if c.Daemon {
		p.Daemon = true
		p.LiveProbe = true
		p.Extra["shutdown"] = "\n      command: 'true'"
	} else {
		p.ReadyProbe = true
	}
	procs := []sc.ProcSpec{p}
	if !c.Daemon {
		procs = append(procs, sc.ProcSpec{Name: "dep", Deps: []sc.Dep{{On: "svc", Cond: "process_healthy"}}})
	}
	return procs
}

func policyWants(policy string, code int) bool {
	return policy == "always" || (policy == "on_failure" && code != 0)
}

func checkProbe(c ProbeCase) pbt.Verdict {
	var v pbt.Verdict
	fail := func(format string, a ...any) pbt.Verdict {
		v.Violations = append(v.Violations, fmt.Sprintf(format, a...))
		return v
	}
	s := &sc.Scenario{Procs: probeProcs(c), FinishRounds: 2}
	e, err := sc.Begin(s)
	if errors.Is(err, sc.ErrLeftover) {
		v.Skip = true
		return v
	}
	if err != nil {
		return fail("load failed: %v", err)
	}
	finished := false
	defer func() {
		if !finished {
			e.Finish()
		}
	}()
	health := func() (string, string, bool) {
		st, err := e.R.GetProcessState("svc")
		if err != nil {
			return "", "", false
		}
		return st.Health, st.Status, true
	}
	relaunches := 0
	readyNow := false  // model: an ok probe was delivered to the current instance and nothing reset it since
	everReady := false // for the dependent
	fatalSeen, flip := false, false
	pendingFatal := false
	last := ""
	for i, st := range c.Steps {
		live := e.W.LiveCmds("svc")
		nLaunchBefore := countLaunches(e, "svc")
		applied := e.Do(st)
		if e.H.Busy != "" {
			v.Skip = true
			return v
		}
		if !applied {
			continue
		}
		h, status, ok := health()
		if !ok {
			return fail("step %d: GetProcessState failed", i)
		}
		nLaunchAfter := countLaunches(e, "svc")
		switch st.Op {
		case sc.OpProbe:
			switch {
			case st.Fatal:
				fatalSeen = true
				readyNow = false
				// the instance that was probed must have been stopped
				if len(live) == 1 && live[0].Alive() {
					return fail("step %d: readiness probe gave up (fatal) but inst %d was not stopped (status %s)", i, live[0].Inst, status)
				}
				want := policyWants(c.Policy, -1) && (c.MaxRestarts == 0 || relaunches < c.MaxRestarts)
				if want && nLaunchAfter != nLaunchBefore+1 {
					return fail("step %d: readiness probe gave up, policy %q (max %d, %d relaunches so far): process was not relaunched (status %s)\n%s", i, c.Policy, c.MaxRestarts, relaunches, status, e.W.Events())
				}
				if !want && nLaunchAfter != nLaunchBefore {
					return fail("step %d: readiness probe gave up, policy %q: process was relaunched against the policy", i, c.Policy)
				}
				if want {
					relaunches++
				}
				if h == "Ready" {
					return fail("step %d: after the stop/relaunch caused by the probe the process is still reported Ready", i)
				}
			case st.OK:
				readyNow, everReady = true, true
				if h != "Ready" {
					return fail("step %d: probe succeeded but health is %q (status %s)", i, h, status)
				}
				if last == "fail" {
					flip = true
				}
				last = "ok"
			default:
				readyNow = false
				if h != "Not Ready" {
					return fail("step %d: probe failed but health is %q (status %s)", i, h, status)
				}
				if last == "ok" {
					flip = true
				}
				last = "fail"
			}
		case sc.OpLiveProbe:
			if st.Fatal && len(live) > 0 {
				// gave up while the launcher is still running (status Launching): the daemon is to be
				// treated as exited as soon as it counts as launched, i.e. when the launcher returns
				fatalSeen = true
				pendingFatal = true
				continue
			}
			if st.Fatal {
				fatalSeen = true
				want := policyWants(c.Policy, 0) && (c.MaxRestarts == 0 || relaunches < c.MaxRestarts)
				if want && nLaunchAfter != nLaunchBefore+1 {
					return fail("step %d: daemon's liveness probe gave up, policy %q: not relaunched (status %s)", i, c.Policy, status)
				}
				if !want {
					if nLaunchAfter != nLaunchBefore {
						return fail("step %d: daemon's liveness probe gave up, policy %q: relaunched against the policy", i, c.Policy)
					}
					if status == "Launched" || status == "Launching" || status == "Running" {
						return fail("step %d: daemon's liveness probe gave up but the daemon is still reported %s", i, status)
					}
				}
				if want {
					relaunches++
				}
			}
		case sc.OpExit:
			if c.Daemon && st.Code == 0 && pendingFatal {
				pendingFatal = false
				want := policyWants(c.Policy, 0) && (c.MaxRestarts == 0 || relaunches < c.MaxRestarts)
				if want && nLaunchAfter != nLaunchBefore+1 {
					return fail("step %d: the daemon's liveness probe had given up while it was launching; launcher returned, policy %q: not relaunched (status %s)", i, c.Policy, status)
				}
				if !want && (nLaunchAfter != nLaunchBefore || status == "Launched" || status == "Launching" || status == "Running") {
					return fail("step %d: the daemon's liveness probe had given up while it was launching; launcher returned, policy %q: status %s, launches %d -> %d", i, c.Policy, status, nLaunchBefore, nLaunchAfter)
				}
				if want {
					relaunches++
				}
				continue
			}
			if c.Daemon && st.Code == 0 {
				// the launcher of a daemon returned: the daemon counts as running
				if status != "Launched" {
					return fail("step %d: daemon launcher exited 0 but status is %s", i, status)
				}
				continue
			}
			want := policyWants(c.Policy, st.Code) && (c.MaxRestarts == 0 || relaunches < c.MaxRestarts)
			if want {
				relaunches++
			}
			readyNow = false
			if want && h == "Ready" {
				return fail("step %d: process was restarted but is still reported Ready without a new successful probe", i)
			}
			last = ""
		case sc.OpStop, sc.OpRestart:
			readyNow = false
			if h == "Ready" && len(e.W.LiveCmds("svc")) > 0 {
				return fail("step %d: after %s the process is reported Ready without a new successful probe", i, st.Op)
			}
			last = ""
		}
		if h == "Ready" && !readyNow && !c.Daemon && len(e.W.LiveCmds("svc")) > 0 {
			return fail("step %d (%s): reported Ready although no probe has succeeded for the current instance", i, st)
		}
	}
	finished = true
	hist := e.Finish()
	if hist.Busy != "" {
		v.Skip = true
		return v
	}
	// the dependent is launched only after a successful probe
	for _, ev := range hist.Events {
		if ev.Kind == world.EvLaunch && ev.Proc == "dep" {
			okBefore := false
			for _, p := range hist.Events[:ev.Seq] {
				if p.Kind == world.EvProbe && p.Proc == "svc" && p.Text == "ok" {
					okBefore = true
				}
			}
			if !okBefore {
				return fail("dependent launched at seq %d before any probe of svc succeeded", ev.Seq)
			}
		}
	}
	_ = everReady
	v.NonTrivial = fatalSeen || flip
	if fatalSeen {
		v.Labels = append(v.Labels, "threshold-reached")
	}
	if flip {
		v.Labels = append(v.Labels, "outcome-flip")
	}
	v.Labels = append(v.Labels, "policy:"+c.Policy)
	if c.Daemon {
		v.Labels = append(v.Labels, "daemon")
	}
	return v
}

func countLaunches(e *sc.Exec, proc string) int {
	n := 0
	for _, ev := range e.W.Events() {
		if ev.Proc == proc && ev.Kind == world.EvLaunch {
			n++
		}
	}
	return n
}

func genProbe(t *rapid.T) ProbeCase {
	c := ProbeCase{Policy: pbt.Pick(t, []string{"", "no", "always", "on_failure", "always", "on_failure"}), Daemon: pbt.Pct(t, 25)}
	if c.Policy == "always" || c.Policy == "on_failure" {
		c.MaxRestarts = pbt.Pick(t, []int{0, 0, 1, 2})
	}
	n := pbt.Range(t, 1, 10)
	if c.Daemon {
		if pbt.Pct(t, 35) {
			// the probe gives up before the launcher has returned
			if pbt.Pct(t, 50) {
				c.Steps = append(c.Steps, sc.Step{Op: sc.OpLiveProbe, Proc: "svc"})
			}
			c.Steps = append(c.Steps, sc.Step{Op: sc.OpLiveProbe, Proc: "svc", Fatal: true})
			c.Steps = append(c.Steps, sc.Step{Op: sc.OpExit, Proc: "svc", Code: 0}) // launcher of the first launch
		}
		c.Steps = append(c.Steps, sc.Step{Op: sc.OpExit, Proc: "svc", Code: 0})
		for i := 0; i < n; i++ {
			switch pbt.Pick(t, []string{"ok", "fail", "fatal"}) {
			case "ok":
				c.Steps = append(c.Steps, sc.Step{Op: sc.OpLiveProbe, Proc: "svc", OK: true})
			case "fail":
				c.Steps = append(c.Steps, sc.Step{Op: sc.OpLiveProbe, Proc: "svc"})
			case "fatal":
				c.Steps = append(c.Steps, sc.Step{Op: sc.OpLiveProbe, Proc: "svc", Fatal: true})
				c.Steps = append(c.Steps, sc.Step{Op: sc.OpExit, Proc: "svc", Code: 0}) // launcher of the relaunched daemon
			}
		}
		return c
	}
	for i := 0; i < n; i++ {
		switch pbt.Pick(t, []string{"ok", "ok", "fail", "fail", "fatal", "exit", "stop", "restart"}) {
		case "ok":
			c.Steps = append(c.Steps, sc.Step{Op: sc.OpProbe, Proc: "svc", OK: true})
		case "fail":
			c.Steps = append(c.Steps, sc.Step{Op: sc.OpProbe, Proc: "svc"})
		case "fatal":
			c.Steps = append(c.Steps, sc.Step{Op: sc.OpProbe, Proc: "svc", Fatal: true})
		case "exit":
			c.Steps = append(c.Steps, sc.Step{Op: sc.OpExit, Proc: "svc", Code: pbt.Pick(t, []int{0, 1})})
		case "stop":
			if pbt.Pct(t, 30) {
				c.Steps = append(c.Steps, sc.Step{Op: sc.OpStop, Proc: "svc"})
			}
		case "restart":
			if pbt.Pct(t, 30) {
				c.Steps = append(c.Steps, sc.Step{Op: sc.OpProbe, Proc: "svc", OK: true}, sc.Step{Op: sc.OpStart, Proc: "nobody"})
			}
		}
	}
	return c
}

func TestC10Inject(t *testing.T) {
	pbt.Run(t, pbt.Spec[ProbeCase]{Prop: "C10", Test: "TestC10Inject", Engine: "lifecycle", Gen: genProbe, Check: checkProbe})
}
