package world

import (
	"fmt"
	"runtime"
	"testing"
	"time"
)

func TestDumpCost(t *testing.T) {
	for i := 0; i < 20; i++ {
		go func() { select {} }()
	}
	time.Sleep(10 * time.Millisecond)
	buf := make([]byte, 1<<20)
	t0 := time.Now()
	for i := 0; i < 100; i++ {
		runtime.Stack(buf, true)
	}
	fmt.Println("stack", time.Since(t0)/100)
	t0 = time.Now()
	for i := 0; i < 100; i++ {
		dumpAll()
	}
	fmt.Println("dumpAll", time.Since(t0)/100)
	gs := dumpAll()
	for _, g := range gs {
		fmt.Println(g.ID, g.State, busyReason(g))
	}
}
