package rest

import (
	"bytes"
	"encoding/json"
	"errors"
	"fmt"
	"io"
	"net"
	"net/http"
	"net/http/httptest"
	"net/url"
	"os"
	"sort"
	"strconv"
	"strings"
	"testing"
	"time"

	"github.com/f1bonacc1/process-compose/src/api"
	"github.com/f1bonacc1/process-compose/src/client"
	"github.com/f1bonacc1/process-compose/src/types"
	"github.com/gin-gonic/gin"
	"github.com/rs/zerolog"
	"github.com/rs/zerolog/log"
	"pgregory.net/rapid"

	"verif/harness/pbt"
	"verif/harness/sc"
)

func TestMain(m *testing.M) {
	gin.SetMode(gin.ReleaseMode)
	log.Logger = zerolog.Nop()
	code := m.Run()
	os.RemoveAll(sc.TmpRoot())
	os.Exit(code)
}

type RStep struct {
	Kind string `json:"kind"`
	Name string `json:"name,omitempty"`
	A    string `json:"a,omitempty"`
	B    string `json:"b,omitempty"`
	Body string `json:"body,omitempty"`
	Via  string `json:"via,omitempty"` // rest | client
	Code int    `json:"code,omitempty"`
	// CT: Content-Type of a request with a body ("" = application/json, "none" = header absent)
	CT string `json:"ct,omitempty"`
}

type RestCase struct {
	Web   int     `json:"web"` // replicas of the replicated process
	Steps []RStep `json:"steps"`
}

func restProcs(web int) []sc.ProcSpec {
	return []sc.ProcSpec{
		{Name: "keeper", Command: "keep"},
		{Name: "web", Replicas: web, Command: "serve {{.PC_REPLICA_NUM}}", Env: []string{"A=1", "B=x=y"}},
		{Name: "job", Command: "job", Restart: "on_failure", MaxRestarts: 1},
		{Name: "late", Command: "late", Deps: []sc.Dep{{On: "job", Cond: "process_completed"}}},
		{Name: "off", Command: "off", Disabled: true},
		// a legal name that needs escaping on its way through a URL path and a query string
		{Name: "my job", Command: "myjob", Extra: map[string]string{"x-owner": "team-a"}},
	}
}

// canonical JSON with the fields masked that legitimately differ between two reads
func canonState(v any) string {
	b, _ := json.Marshal(v)
	var x any
	_ = json.Unmarshal(b, &x)
	mask(x)
	out, _ := json.Marshal(x)
	return string(out)
}

func mask(x any) {
	switch t := x.(type) {
	case map[string]any:
		for _, k := range []string{"age", "system_time", "mem", "cpu", "upTime", "memoryState"} {
			if _, ok := t[k]; ok {
				t[k] = 0
			}
		}
		for _, v := range t {
			mask(v)
		}
	case []any:
		for _, v := range t {
			mask(v)
		}
	}
}

func sortStates(s *types.ProcessesState) *types.ProcessesState {
	if s == nil {
		return nil
	}
	cp := &types.ProcessesState{States: append([]types.ProcessState(nil), s.States...)}
	sort.Slice(cp.States, func(i, j int) bool { return cp.States[i].Name < cp.States[j].Name })
	return cp
}

type env struct {
	e   *sc.Exec
	srv *httptest.Server
	cl  *client.PcClient
	c   RestCase
}

func (n *env) do(method, path, body string) (int, []byte, error) {
	return n.doCT(method, path, body, "")
}

func (n *env) doCT(method, path, body, ct string) (int, []byte, error) {
	var rd io.Reader
	if body != "" {
		rd = strings.NewReader(body)
	}
	req, err := http.NewRequest(method, n.srv.URL+path, rd)
	if err != nil {
		return 0, nil, err
	}
	switch {
	case ct == "none":
	case ct != "":
		req.Header.Set("Content-Type", ct)
	case body != "":
		req.Header.Set("Content-Type", "application/json")
	}
	hc := *n.srv.Client()
	hc.Timeout = 6 * time.Second
	resp, err := hc.Do(req)
	if err != nil {
		if strings.Contains(err.Error(), "Client.Timeout") || strings.Contains(err.Error(), "deadline exceeded") {
			// the handler is stuck inside the runner: nothing of this case can be cleaned up
			pbt.Abort("C19", "rest", "TestC19", n.c, fmt.Sprintf("%s %s did not return within 6 s (%v): the server stopped serving this request", method, path, err))
			return 599, []byte("request did not return within 6 s: " + err.Error()), nil
		}
		return 0, nil, err
	}
	defer resp.Body.Close()
	b, _ := io.ReadAll(resp.Body)
	return resp.StatusCode, b, nil
}

// procNames: the sorted names the runner lists.
func procNames(e *sc.Exec) string {
	sts, err := e.R.GetProcessesState()
	if err != nil {
		return "error: " + err.Error()
	}
	var l []string
	for _, s := range sts.States {
		l = append(l, s.Name)
	}
	sort.Strings(l)
	return strings.Join(l, ",")
}

func errorBody(b []byte) bool {
	var m map[string]any
	if json.Unmarshal(b, &m) != nil {
		return false
	}
	s, ok := m["error"].(string)
	return ok && s != ""
}

func esc(s string) string { return url.PathEscape(s) }

// clientSafe: names the client can put into a URL without escaping
func clientSafe(s string) bool {
	if s == "" {
		return false
	}
	for _, r := range s {
		if !(r >= 'a' && r <= 'z' || r >= 'A' && r <= 'Z' || r >= '0' && r <= '9' || r == '_' || r == '-' || r == '.' || r == ' ') {
			return false
		}
	}
	return s != "." && s != ".."
}

func checkRest(c RestCase) pbt.Verdict {
	var v pbt.Verdict
	s := &sc.Scenario{Procs: restProcs(c.Web), FinishRounds: 2}
	e, err := sc.Begin(s)
	if errors.Is(err, sc.ErrLeftover) {
		v.Skip = true
		return v
	}
	if err != nil {
		v.Violations = append(v.Violations, "load failed: "+err.Error())
		return v
	}
	defer e.Finish()
	srv := httptest.NewServer(api.InitRoutes(false, api.NewPcApi(e.R)))
	defer srv.Close()
	host, portS, _ := net.SplitHostPort(strings.TrimPrefix(srv.URL, "http://"))
	port, _ := strconv.Atoi(portS)
	n := &env{e: e, srv: srv, cl: client.NewTcpClient(host, port, 100), c: c}
	fail := func(i int, st RStep, format string, a ...any) pbt.Verdict {
		v.Violations = append(v.Violations, fmt.Sprintf("step %d %+v: ", i, st)+fmt.Sprintf(format, a...))
		return v
	}
	known := func(name string) bool {
		_, err := e.R.GetProcessInfo(name)
		return err == nil
	}
	sawChange, sawInvalid, readAfterChange := false, false, false
	for i, st := range c.Steps {
		switch st.Kind {
		case "exit":
			e.Do(sc.Step{Op: sc.OpExit, Proc: st.Name, Code: st.Code})
		case "line":
			e.Do(sc.Step{Op: sc.OpLine, Proc: st.Name, Stream: 1, Text: st.Body})
		case "states":
			direct, derr := e.R.GetProcessesState()
			code, body, err := n.do("GET", "/processes", "")
			if err != nil || code != 200 || derr != nil {
				return fail(i, st, "GET /processes -> %d %v (direct err %v)", code, err, derr)
			}
			var got types.ProcessesState
			if err := json.Unmarshal(body, &got); err != nil {
				return fail(i, st, "undecodable body %q", body)
			}
			viaClient, cerr := n.cl.GetProcessesState()
			if cerr != nil {
				return fail(i, st, "client failed: %v", cerr)
			}
			d, r, cl := canonState(sortStates(direct)), canonState(sortStates(&got)), canonState(sortStates(viaClient))
			if d != r || d != cl {
				return fail(i, st, "process states differ:\ndirect %s\nrest   %s\nclient %s", d, r, cl)
			}
			if sawChange {
				readAfterChange = true
			}
		case "state":
			direct, derr := e.R.GetProcessState(st.Name)
			code, body, err := n.do("GET", "/process/"+esc(st.Name), "")
			if err != nil {
				return fail(i, st, "request failed: %v", err)
			}
			if code >= 500 {
				return fail(i, st, "server error %d: %s", code, body)
			}
			if derr != nil {
				sawInvalid = true
				if code < 400 || (code == 400 && !errorBody(body)) {
					return fail(i, st, "unknown process answered with %d %s", code, body)
				}
			} else {
				if code != 200 {
					return fail(i, st, "known process answered with %d %s", code, body)
				}
				var got types.ProcessState
				_ = json.Unmarshal(body, &got)
				if canonState(direct) != canonState(got) {
					return fail(i, st, "state differs: direct %s rest %s", canonState(direct), canonState(got))
				}
			}
			if clientSafe(st.Name) {
				cs, cerr := n.cl.GetProcessState(st.Name)
				if (cerr != nil) != (derr != nil) {
					return fail(i, st, "client error %v, direct error %v", cerr, derr)
				}
				if derr == nil && canonState(direct) != canonState(cs) {
					return fail(i, st, "client decodes the state as %s, direct %s", canonState(cs), canonState(direct))
				}
			}
			if sawChange && derr == nil {
				readAfterChange = true
			}
		case "info":
			direct, derr := e.R.GetProcessInfo(st.Name)
			code, body, err := n.do("GET", "/process/info/"+esc(st.Name), "")
			if err != nil {
				return fail(i, st, "request failed: %v", err)
			}
			if code >= 500 {
				return fail(i, st, "server error %d: %s", code, body)
			}
			if derr != nil {
				sawInvalid = true
				if code < 400 {
					return fail(i, st, "unknown process answered with %d %s", code, body)
				}
			} else {
				var got types.ProcessConfig
				if code != 200 || json.Unmarshal(body, &got) != nil {
					return fail(i, st, "known process answered with %d %s", code, body)
				}
				if canonState(direct) != canonState(got) {
					return fail(i, st, "config differs:\ndirect %s\nrest   %s", canonState(direct), canonState(got))
				}
				// fields are compared on the Go side too: a field dropped from the JSON encoding would
				// vanish from both canonical forms above
				if fmt.Sprint(direct.Extensions) != fmt.Sprint(got.Extensions) && (len(direct.Extensions) > 0 || len(got.Extensions) > 0) {
					return fail(i, st, "extension fields (x-...) differ: the runner holds %v, the REST answer decodes to %v", direct.Extensions, got.Extensions)
				}
			}
			if clientSafe(st.Name) {
				ci, cerr := n.cl.GetProcessInfo(st.Name)
				if (cerr != nil) != (derr != nil) {
					return fail(i, st, "client returned error %v (config %+v), the runner's answer is error %v", cerr, ci != nil, derr)
				}
				if derr == nil && canonState(direct) != canonState(ci) {
					return fail(i, st, "client decodes the config as %s, direct %s", canonState(ci), canonState(direct))
				}
			}
		case "logs":
			off, e1 := strconv.Atoi(st.A)
			lim, e2 := strconv.Atoi(st.B)
			code, body, err := n.do("GET", "/process/logs/"+esc(st.Name)+"/"+esc(st.A)+"/"+esc(st.B), "")
			if err != nil {
				return fail(i, st, "request failed: %v", err)
			}
			if code >= 500 {
				return fail(i, st, "server error %d: %s", code, body)
			}
			if e1 != nil || e2 != nil || !known(st.Name) {
				sawInvalid = true
				if code < 400 {
					return fail(i, st, "invalid log request answered with %d %s", code, body)
				}
				continue
			}
			direct, derr := e.R.GetProcessLog(st.Name, off, lim)
			if derr != nil {
				continue
			}
			var got struct {
				Logs []string `json:"logs"`
			}
			if code != 200 || json.Unmarshal(body, &got) != nil {
				return fail(i, st, "valid log request answered with %d %s", code, body)
			}
			if fmt.Sprint(got.Logs) != fmt.Sprint(direct) && !(len(got.Logs) == 0 && len(direct) == 0) {
				return fail(i, st, "log window differs: rest %v direct %v", got.Logs, direct)
			}
		case "projstate":
			direct, derr := e.R.GetProjectState(false)
			code, body, err := n.do("GET", "/project/state", "")
			if err != nil || code != 200 || derr != nil {
				return fail(i, st, "GET /project/state -> %d %v %v", code, err, derr)
			}
			var got types.ProjectState
			_ = json.Unmarshal(body, &got)
			cs, cerr := n.cl.GetProjectState(false)
			if cerr != nil {
				return fail(i, st, "client failed: %v", cerr)
			}
			if canonState(direct) != canonState(got) || canonState(direct) != canonState(cs) {
				return fail(i, st, "project state differs: direct %s rest %s client %s", canonState(direct), canonState(got), canonState(cs))
			}
		case "ports":
			_, derr := e.R.GetProcessPorts(st.Name)
			code, body, err := n.do("GET", "/process/ports/"+esc(st.Name), "")
			if err != nil {
				return fail(i, st, "request failed: %v", err)
			}
			if code >= 500 {
				return fail(i, st, "server error %d: %s", code, body)
			}
			if (derr != nil) != (code >= 400) {
				return fail(i, st, "ports: direct error %v but status %d", derr, code)
			}
			if clientSafe(st.Name) {
				_, cerr := n.cl.GetProcessPorts(st.Name)
				if (cerr != nil) != (derr != nil) {
					return fail(i, st, "client returned error %v, the runner's answer is error %v", cerr, derr)
				}
			}
			if derr != nil {
				sawInvalid = true
			}
		case "stop", "start", "restart":
			pre, perr := e.R.GetProcessState(st.Name)
			live := len(e.W.LiveCmds(st.Name)) > 0
			if st.Kind == "restart" && perr == nil && !live {
				// known finding C09-restart-while-pending: a restart request on a process that has
				// nothing alive may hit an instance waiting for its dependencies; excluded by construction
				v.Known = append(v.Known, "excluded:C09-restart-while-pending")
				continue
			}
			var opErr error
			code := 0
			var body []byte
			if st.Via == "client" && clientSafe(st.Name) && st.Kind != "restart" {
				switch st.Kind {
				case "stop":
					opErr = n.cl.StopProcess(st.Name)
				case "start":
					opErr = n.cl.StartProcess(st.Name)
				case "restart":
					opErr = n.cl.RestartProcess(st.Name)
				}
			} else {
				method := map[string]string{"stop": "PATCH", "start": "POST", "restart": "POST"}[st.Kind]
				var err error
				code, body, err = n.do(method, "/process/"+st.Kind+"/"+esc(st.Name), "")
				if err != nil {
					return fail(i, st, "request failed: %v", err)
				}
				if code >= 500 {
					return fail(i, st, "server error %d: %s", code, body)
				}
				if code >= 400 {
					opErr = fmt.Errorf("%s", body)
					if code == 400 && !errorBody(body) {
						return fail(i, st, "400 without an error message: %s", body)
					}
				} else {
					var m map[string]string
					if json.Unmarshal(body, &m) != nil || m["name"] != st.Name {
						return fail(i, st, "success answer does not name the process: %s", body)
					}
				}
			}
			e.Do(sc.Step{Op: sc.OpSettle})
			if e.H.Busy != "" {
				v.Skip = true
				return v
			}
			var want string // "ok", "err", "" = either
			switch {
			case perr != nil:
				want = "err"
				sawInvalid = true
			case st.Kind == "stop" && live && pre.Status == "Running":
				want = "ok"
			case st.Kind == "start" && live:
				want = "err"
			// nothing alive: an instance may still be registered and waiting for its dependencies
			// (the reported status does not tell), so both outcomes are accepted
			case st.Kind == "restart" && live && pre.Status == "Running":
				want = "ok"
			}
			if want == "ok" && opErr != nil {
				return fail(i, st, "expected success (status before: %s, live %v), got error %v", pre.Status, live, opErr)
			}
			if want == "err" && opErr == nil {
				st2 := "unknown"
				if pre != nil {
					st2 = pre.Status
				}
				return fail(i, st, "expected an error (status before: %s, live %v), got success (http %d)", st2, live, code)
			}
			if opErr == nil {
				post, err := e.R.GetProcessState(st.Name)
				if err != nil {
					return fail(i, st, "process vanished: %v", err)
				}
				nowLive := len(e.W.LiveCmds(st.Name)) > 0
				switch st.Kind {
				case "stop":
					if nowLive || post.IsRunning {
						return fail(i, st, "stop succeeded but the process is still running (status %s)", post.Status)
					}
				case "start", "restart":
					if !nowLive && post.Status != "Pending" && st.Name != "late" {
						return fail(i, st, "%s succeeded but nothing of %s is alive (status %s)", st.Kind, st.Name, post.Status)
					}
				}
				sawChange = true
			}
		case "scale":
			num, nerr := strconv.Atoi(st.A)
			_, perr := e.R.GetProcessInfo(st.Name)
			var opErr error
			code := 0
			if st.Via == "client" && nerr == nil && clientSafe(st.Name) {
				opErr = n.cl.ScaleProcess(st.Name, num)
			} else {
				var body []byte
				var err error
				code, body, err = n.do("PATCH", "/process/scale/"+esc(st.Name)+"/"+esc(st.A), "")
				if err != nil {
					return fail(i, st, "request failed: %v", err)
				}
				if code >= 500 {
					return fail(i, st, "server error %d: %s", code, body)
				}
				if code >= 400 {
					opErr = fmt.Errorf("%s", body)
				}
			}
			e.Do(sc.Step{Op: sc.OpSettle})
			invalid := nerr != nil || num < 1 || perr != nil
			if invalid {
				sawInvalid = true
				if opErr == nil {
					return fail(i, st, "invalid scale request succeeded (http %d)", code)
				}
				continue
			}
			if opErr != nil {
				return fail(i, st, "valid scale request failed: %v", opErr)
			}
			info, _ := e.R.GetProcessInfo(st.Name)
			base := st.Name
			if info != nil {
				base = info.Name
			} else if j := strings.LastIndexByte(st.Name, '-'); j > 0 {
				base = st.Name[:j]
			}
			sts, _ := e.R.GetProcessesState()
			cnt := 0
			for _, s := range sts.States {
				if s.Name == base || strings.HasPrefix(s.Name, base+"-") {
					cnt++
				}
			}
			if cnt != num {
				return fail(i, st, "after scaling to %d there are %d replicas listed", num, cnt)
			}
			sawChange = true
		case "stopmany":
			code, body, err := n.do("PATCH", "/processes/stop", st.Body)
			if err != nil {
				return fail(i, st, "request failed: %v", err)
			}
			if code >= 500 {
				return fail(i, st, "server error %d: %s", code, body)
			}
			var names []string
			if json.Unmarshal([]byte(st.Body), &names) != nil {
				sawInvalid = true
				if code < 400 {
					return fail(i, st, "malformed body accepted with %d %s", code, body)
				}
			}
			e.Do(sc.Step{Op: sc.OpSettle})
			sawChange = true
		case "updateproc":
			namesBefore := procNames(e)
			code, body, err := n.doCT("POST", "/process", st.Body, st.CT)
			if err != nil {
				return fail(i, st, "request failed: %v", err)
			}
			if code >= 500 {
				return fail(i, st, "server error %d: %s", code, body)
			}
			e.Do(sc.Step{Op: sc.OpSettle})
			var pc types.ProcessConfig
			if json.Unmarshal([]byte(st.Body), &pc) != nil {
				sawInvalid = true
				if code < 400 {
					return fail(i, st, "malformed body accepted with %d %s", code, body)
				}
			} else if pc.ReplicaName != "" && pc.Command != "" && known(pc.ReplicaName) {
				// a well-formed update of a known process: the runner's direct call accepts it
				// whatever Content-Type the request carries (the handler decodes the body as JSON)
				if code != 200 {
					return fail(i, st, "well-formed update of %s (Content-Type %q) answered %d %s", pc.ReplicaName, st.CT, code, body)
				}
				if info, err := e.R.GetProcessInfo(pc.ReplicaName); err != nil || info.Command != pc.Command {
					return fail(i, st, "update of %s answered 200 but the runner's config has command %v (err %v), want %q", pc.ReplicaName, info, err, pc.Command)
				}
				sawChange = true
			}
			if code >= 400 {
				if after := procNames(e); after != namesBefore {
					return fail(i, st, "a refused update (http %d) changed the process set from %s to %s", code, namesBefore, after)
				}
			}
		case "raw":
			namesBefore := procNames(e)
			code, body, err := n.doCT(st.A, st.Name, st.Body, st.CT)
			if err != nil {
				continue // the Go client may refuse to send it
			}
			if code >= 500 {
				return fail(i, st, "server error %d: %s", code, body)
			}
			sawInvalid = true
			e.Do(sc.Step{Op: sc.OpSettle})
			// every raw request of the generator is invalid for its route (wrong method, missing
			// parameter, malformed or ill-typed body): it changes nothing
			if st.A == "POST" && (st.Name == "/project" || st.Name == "/process") && code < 400 {
				return fail(i, st, "malformed body (Content-Type %q) accepted with %d %s", st.CT, code, body)
			}
			if after := procNames(e); after != namesBefore {
				return fail(i, st, "an invalid request (http %d) changed the process set from %s to %s", code, namesBefore, after)
			}
		}
		// the server still serves
		if code, _, err := n.do("GET", "/live", ""); err != nil || code != 200 {
			return fail(i, st, "after this step GET /live answers %d %v", code, err)
		}
		if e.H.Busy != "" {
			v.Skip = true
			return v
		}
	}
	v.NonTrivial = readAfterChange && sawInvalid
	if sawInvalid {
		v.Labels = append(v.Labels, "invalid-request")
	}
	if readAfterChange {
		v.Labels = append(v.Labels, "read-after-change")
	}
	return v
}

var contentTypes = []string{"", "", "none", "text/plain", "application/x-www-form-urlencoded", "application/octet-stream", "application/json; charset=utf-8"}
var badNames = []string{"ghost", "web", "web-9", "", " ", "a b", "%2e%2e", "../x", "名前", "x/y", "?q", "#", strings.Repeat("n", 300)}
var nums = []string{"0", "1", "2", "3", "5", "-1", "-7", "10", "99999999999999999999", "abc", "1.5", "", " 1", "0x10", "+2", "9223372036854775807", "9223372036854775806", "-9223372036854775808", "2147483648"}

func genRest(t *rapid.T) RestCase {
	c := RestCase{Web: pbt.Pick(t, []int{1, 2, 3})}
	cur := c.Web
	webName := func(i int) string {
		if cur <= 1 {
			return "web"
		}
		return fmt.Sprintf("web-%d", i%cur)
	}
	targets := func() string {
		return pbt.Pick(t, []string{webName(0), webName(1), "job", "late", "off", webName(2), "my job"})
	}
	anyName := func() string {
		if pbt.Pct(t, 30) {
			return pbt.Pick(t, badNames)
		}
		return pbt.Pick(t, []string{"keeper", targets()})
	}
	// some output first, so that log windows have something to cut
	for i, k := 0, pbt.Range(t, 0, 4); i < k; i++ {
		c.Steps = append(c.Steps, RStep{Kind: "line", Name: pbt.Pick(t, []string{"keeper", "job", webName(0)}), Body: fmt.Sprintf("early line %d", i)})
	}
	n := pbt.Range(t, 5, 30)
	for i := 0; i < n; i++ {
		via := pbt.Pick(t, []string{"rest", "client"})
		kind := pbt.Pick(t, []string{"states", "state", "state", "info", "info", "logs", "logs", "projstate", "ports", "stop", "start", "restart", "scale", "scale", "stopmany", "updateproc", "raw", "exit", "line", "again", "again", "again"})
		if kind == "again" {
			// the same question once more after whatever happened in between: a view that is
			// not recomputed from the runner shows here
			var reads []RStep
			for _, st := range c.Steps {
				if st.Kind == "state" || st.Kind == "info" || st.Kind == "ports" || st.Kind == "logs" {
					reads = append(reads, st)
				}
			}
			if len(reads) > 0 {
				c.Steps = append(c.Steps, reads[pbt.Range(t, 0, len(reads)-1)])
				continue
			}
			kind = "info"
		}
		switch kind {
		case "states":
			c.Steps = append(c.Steps, RStep{Kind: "states"})
		case "state":
			c.Steps = append(c.Steps, RStep{Kind: "state", Name: anyName()})
		case "info":
			c.Steps = append(c.Steps, RStep{Kind: "info", Name: anyName()})
		case "logs":
			st := RStep{Kind: "logs", Name: anyName(), A: pbt.Pick(t, nums), B: pbt.Pick(t, nums)}
			if pbt.Pct(t, 35) {
				// well-formed numbers on a process that has output: the window arithmetic itself
				st.Name = pbt.Pick(t, []string{"keeper", "job", webName(0)})
				st.A = pbt.Pick(t, []string{"0", "1", "2", "-1", "5"})
				st.B = pbt.Pick(t, []string{"0", "1", "3", "-1", "9223372036854775807", "9223372036854775806", "2147483648", "-9223372036854775808"})
			}
			c.Steps = append(c.Steps, st)
		case "projstate":
			c.Steps = append(c.Steps, RStep{Kind: "projstate"})
		case "ports":
			c.Steps = append(c.Steps, RStep{Kind: "ports", Name: anyName()})
		case "stop":
			c.Steps = append(c.Steps, RStep{Kind: "stop", Name: pick2(t, targets(), badNames), Via: via})
		case "start":
			c.Steps = append(c.Steps, RStep{Kind: "start", Name: pick2(t, targets(), badNames), Via: via})
		case "restart":
			c.Steps = append(c.Steps, RStep{Kind: "restart", Name: pick2(t, targets(), badNames), Via: via})
		case "scale":
			a := pbt.Pick(t, nums)
			name := pick2(t, webName(0), badNames)
			c.Steps = append(c.Steps, RStep{Kind: "scale", Name: name, A: a, Via: via})
			if k, err := strconv.Atoi(a); err == nil && k >= 1 && k <= 5 && (name == webName(0)) {
				cur = k
			} else if err == nil && k > 5 {
				c.Steps = c.Steps[:len(c.Steps)-1] // keep replica counts small
			}
		case "stopmany":
			body := pbt.Pick(t, []string{`["job","ghost"]`, `["ghost"]`, `["` + webName(0) + `"]`, `[`, `{"a":1}`, `"job"`, `[1,2]`, ``, `null`})
			c.Steps = append(c.Steps, RStep{Kind: "stopmany", Body: body})
		case "updateproc":
			body := pbt.Pick(t, []string{`{`, `[]`, `{"Name":5}`, `{"Name":"ghost","ReplicaName":"ghost"}`, `{"replicas":"x"}`, `null`, ``, `{"Name":"job","ReplicaName":"job","Command":"job v2","Replicas":1}`})
			c.Steps = append(c.Steps, RStep{Kind: "updateproc", Body: body, CT: pbt.Pick(t, contentTypes)})
		case "raw":
			c.Steps = append(c.Steps, RStep{Kind: "raw", A: pbt.Pick(t, []string{"DELETE", "PUT", "GET", "POST", "PATCH"}),
				Name: pbt.Pick(t, []string{"/process", "/process/stop/job", "/processes/stop", "/process/scale/job", "/process/scale/job/1/2", "/project/state?withMemory=maybe", "/process/logs/job/1", "/nothing", "/process/logs/ws", "/process/logs/ws?offset=x", "/project", "/project/configuration"}),
				Body: pbt.Pick(t, []string{"", "{", `{"processes":5}`, `{"processes":{"x":{"replicas":-3}}}`}), CT: pbt.Pick(t, contentTypes)})
			if st := c.Steps[len(c.Steps)-1]; st.A == "POST" && (st.Name == "/project/configuration" || st.Name == "/project" && (st.Body == "" || strings.HasPrefix(st.Body, `{"processes":{`))) {
				// POST /project/configuration ignores its body: it is a valid reload whatever is sent
				c.Steps = c.Steps[:len(c.Steps)-1] // a valid (destructive) update belongs to C14, not here
			}
		case "exit":
			c.Steps = append(c.Steps, RStep{Kind: "exit", Name: targets(), Code: pbt.Pick(t, []int{0, 1})})
		case "line":
			c.Steps = append(c.Steps, RStep{Kind: "line", Name: targets(), Body: fmt.Sprintf("log line %d", i)})
		}
	}
	return c
}

func pick2(t *rapid.T, good string, bad []string) string {
	if pbt.Pct(t, 25) {
		return pbt.Pick(t, bad)
	}
	return good
}

func TestC19(t *testing.T) {
	pbt.Run(t, pbt.Spec[RestCase]{Prop: "C19", Test: "TestC19", Engine: "rest", Gen: genRest, Check: checkRest})
}

var _ = bytes.NewBuffer
