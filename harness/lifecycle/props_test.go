package lifecycle

import (
	"os"
	"strings"
	"testing"

	"verif/harness/oracle"
	"verif/harness/sc"
	"verif/harness/world"
)

var judges = map[string]*Judge{}

func reg(j *Judge) *Judge { judges[j.Test] = j; return j }

func replayOr(t *testing.T, j *Judge) {
	if f := os.Getenv("VERIF_REPLAY"); f != "" {
		replayJudge(t, j, f, 25)
		return
	}
	runJudge(t, j)
}

// ---------------------------------------------------------------- C01

var jC01 = reg(&Judge{
	Prop: "C01", Test: "TestC01",
	Profile: Profile{MinProcs: 2, MaxProcs: 6, EdgeProb: 45, Conds: allConds,
		Policies: []string{"", "", "no", "on_failure", "always"}, MaxRestartsMax: 2, BackoffMax: 1,
		Probes: true, ReadyLines: true, MaxSteps: 10, Codes: []int{0, 0, 1, 2, -1},
		APIOps: []string{sc.OpStart, sc.OpRestart}, Disabled: true},
	Oracle: oracle.C01,
	Classify: func(h *sc.History, x *oracle.Idx) (bool, []string) {
		var labels []string
		gated := false
		// an edge is exercised when the dependent was released only after some event of the dependency
		for _, p := range h.Scenario.Procs {
			for _, d := range p.Deps {
				labels = append(labels, "cond:"+strings.TrimPrefix(d.Cond, "process_"))
				l := x.Insts[p.Name]
				if len(l) > 0 {
					// was the dependency still unresolved after the dependent was registered?
					for _, e := range h.Events[:l[0].Launch] {
						if e.Proc == d.On && (e.Kind == world.EvExit || e.Kind == world.EvProbe || e.Kind == world.EvLine) {
							gated = true
							labels = append(labels, "gated:"+strings.TrimPrefix(d.Cond, "process_"))
							break
						}
					}
				} else if x.LastStateBefore(p.Name, x.End) == "Skipped" {
					gated = true
					labels = append(labels, "skipped-dependent")
				}
			}
		}
		for _, c := range h.Calls {
			labels = append(labels, "api:"+c.Op)
		}
		return gated, labels
	},
})

func TestC01(t *testing.T) { replayOr(t, jC01) }

// ---------------------------------------------------------------- C02

var jC02 = reg(&Judge{
	Prop: "C02", Test: "TestC02",
	// process_started edges do not gate anything after the first launch; with an ordered shutdown
	// they make a dependency wait for its (slow) dependents, so that it can exit by itself while the
	// shutdown is in progress
	Profile: Profile{MinProcs: 1, MaxProcs: 3, EdgeProb: 25, Conds: []string{"process_started"}, OrderedPct: 40,
		Policies: []string{"", "no", "always", "always", "on_failure", "on_failure", "exit_on_failure"}, MaxRestartsMax: 4, BackoffMax: 3,
		MaxSteps: 10, Codes: []int{0, 1, 2, -1, 255}, APIOps: []string{sc.OpStop, sc.OpStop, sc.OpShutdown},
		SignalBeh: []string{"", "", "hold"}, BackoffStops: true,
		Holds: []string{"run.afterWait", "run.afterBackoff"}, HoldOps: []string{sc.OpStop, sc.OpStop, sc.OpShutdown}},
	Oracle: oracle.C02,
	Classify: func(h *sc.History, x *oracle.Idx) (bool, []string) {
		var labels []string
		nt := false
		for _, p := range h.Scenario.Procs {
			labels = append(labels, "policy:"+p.Restart)
			exits := 0
			for _, in := range x.Insts[p.Name] {
				if in.Exit >= 0 {
					exits++
				}
			}
			if exits >= 2 && (p.Restart == "always" || p.Restart == "on_failure") {
				nt = true
			}
			if p.MaxRestarts > 0 && len(x.Insts[p.Name]) == p.MaxRestarts+1 {
				labels = append(labels, "max-restarts-reached")
			}
		}
		for _, a := range h.Applied {
			if a.Applicable && (a.Step.Op == sc.OpStop || a.Step.Op == sc.OpShutdown) {
				st := ""
				if a.Step.Proc != "" {
					st = x.LastStateBefore(a.Step.Proc, a.SeqBefore)
				}
				labels = append(labels, "stop-in:"+st)
			}
		}
		return nt, labels
	},
})

func TestC02(t *testing.T) { replayOr(t, jC02) }

// ---------------------------------------------------------------- C03

var jC03 = reg(&Judge{
	Prop: "C03", Test: "TestC03",
	Profile: Profile{MinProcs: 1, MaxProcs: 5, EdgeProb: 40, Conds: allConds,
		Policies: []string{"", "no", "always", "on_failure"}, MaxRestartsMax: 3, BackoffMax: 2,
		Probes: true, ReadyLines: true, MaxSteps: 8, Codes: []int{0, 1}, ShutdownStep: true,
		SignalBeh: []string{"", "", "hold", "ignore"}, StartErr: true,
		BackoffStops: true, HoldOps: []string{sc.OpShutdown}, APIOps: []string{sc.OpStop, sc.OpStart, sc.OpStart}, OrderedPct: 35,
		// disabled processes started by request are outside the start-up plan but not outside the shutdown
		Disabled: true, DaemonPct: 10,
		Holds: []string{"run.enter", "run.afterTerminatingCheck", "run.afterWait", "run.afterBackoff", "runProcess.beforeWait", "runProcess.afterWait", "run.loop", "run.prepare"}},
	Oracle: oracle.C03,
	Classify: func(h *sc.History, x *oracle.Idx) (bool, []string) {
		var labels []string
		nt := false
		sb := x.ShutdownBegin()
		if sb < 0 {
			return false, []string{"no-shutdown"}
		}
		for _, p := range h.Scenario.Procs {
			st := x.LastStateBefore(p.Name, sb)
			if st == "" {
				st = "Pending"
			}
			labels = append(labels, "at-shutdown:"+st)
			if st != "Running" && st != "Completed" && st != "Skipped" && st != "Error" {
				nt = true
			}
		}
		for _, e := range h.Events {
			if e.Kind == world.EvHold {
				labels = append(labels, "hold:"+e.Text)
				nt = true
			}
		}
		return nt, labels
	},
})

func TestC03(t *testing.T) { replayOr(t, jC03) }

// ---------------------------------------------------------------- C04

var jC04 = reg(&Judge{
	Prop: "C04", Test: "TestC04",
	Profile: Profile{MinProcs: 1, MaxProcs: 6, EdgeProb: 40, Conds: allConds,
		Policies: []string{"", "", "no", "on_failure", "always", "exit_on_failure", "exit_on_failure"}, MaxRestartsMax: 2, BackoffMax: 1,
		Probes: true, ReadyLines: true, MaxSteps: 10, Codes: []int{0, 0, 1, 2, 7, -1, 255},
		ExitOnFlags: true, StartErr: true, BadDir: true, SignalBeh: []string{"", "", "hold"}},
	Oracle: oracle.C04,
	Classify: func(h *sc.History, x *oracle.Idx) (bool, []string) {
		var labels []string
		nflags := 0
		for _, p := range h.Scenario.Procs {
			if p.ExitOnEnd || p.ExitOnSkipped || p.Restart == "exit_on_failure" {
				nflags++
			}
		}
		sb := x.ShutdownBegin()
		nt := false
		if sb >= 0 {
			labels = append(labels, "triggered")
			for _, l := range x.Insts {
				for _, in := range l {
					if in.Launch < sb && (in.Exit < 0 || in.Exit > sb) {
						nt = true // victims exist
					}
				}
			}
			if nt {
				labels = append(labels, "trigger-with-victims")
			}
		}
		for _, p := range h.Scenario.Procs {
			st := x.LastStateBefore(p.Name, x.End)
			if (st == "Skipped" || st == "Error") && hasDependents(h.Scenario, p.Name) {
				nt = true
				labels = append(labels, "cannot-start-with-dependents:"+st)
			}
		}
		if nflags >= 2 {
			labels = append(labels, "multi-exit-on")
		}
		if h.RunCode != 0 {
			labels = append(labels, "nonzero-result")
		}
		return nt, labels
	},
})

func hasDependents(s *sc.Scenario, name string) bool {
	for _, p := range s.Procs {
		for _, d := range p.Deps {
			if d.On == name {
				return true
			}
		}
	}
	return false
}

func TestC04(t *testing.T) { replayOr(t, jC04) }

// ---------------------------------------------------------------- C05

var jC05 = reg(&Judge{
	Prop: "C05", Test: "TestC05",
	Profile: Profile{MinProcs: 2, MaxProcs: 6, EdgeProb: 50, Conds: []string{"process_completed_successfully", "process_completed_successfully", "process_healthy", "process_log_ready", "process_completed", "process_started"},
		Policies: []string{"", "", "no", "on_failure"}, MaxRestartsMax: 1, BackoffMax: 1,
		Probes: true, ReadyLines: true, MaxSteps: 8, Codes: []int{0, 1, 1, 2, -1},
		ExitOnFlags: true, StartErr: true, BadDir: true, APIOps: []string{sc.OpStop},
		// a failed dependency may be stopped while it waits in its restart back-off
		BackoffStops: true},
	Oracle: oracle.C05,
	Classify: func(h *sc.History, x *oracle.Idx) (bool, []string) {
		var labels []string
		nt := false
		depth := map[string]int{}
		for _, p := range h.Scenario.Procs { // specs are in dependency order
			if x.LastStateBefore(p.Name, x.End) != "Skipped" {
				continue
			}
			d := 1
			for _, dp := range p.Deps {
				if depth[dp.On]+1 > d {
					d = depth[dp.On] + 1
				}
			}
			depth[p.Name] = d
			labels = append(labels, "skip-depth:"+string(rune('0'+d)))
			if d >= 2 {
				nt = true
			}
		}
		for _, e := range h.Events {
			if e.Kind == world.EvStartFail {
				labels = append(labels, "fail:start-error")
			}
			if e.Kind == world.EvState && e.Text == "Error" {
				labels = append(labels, "fail:error-state")
			}
		}
		return nt, labels
	},
})

func TestC05(t *testing.T) { replayOr(t, jC05) }

// ---------------------------------------------------------------- C12

var jC12 = reg(&Judge{
	Prop: "C12", Test: "TestC12",
	Profile: Profile{MinProcs: 2, MaxProcs: 7, EdgeProb: 45, Conds: []string{"process_started", "process_started", "process_started", "process_completed"},
		Policies: []string{"", "no"}, MaxSteps: 4, Codes: []int{0, 1}, ShutdownStep: true, Ordered: true,
		SignalBeh: []string{"hold", "hold", ""}, ShutdownCfg: true,
		// a dependent may already be Terminating (stopped by request, slow to die) when the shutdown begins
		APIOps: []string{sc.OpStop}, ReplicatedLeaves: true},
	Oracle: oracle.C12,
	Classify: func(h *sc.History, x *oracle.Idx) (bool, []string) {
		var labels []string
		sb := x.ShutdownBegin()
		if sb < 0 {
			return false, []string{"no-shutdown"}
		}
		nt := false
		for _, p := range h.Scenario.Procs {
			n := 0
			for _, q := range h.Scenario.Procs {
				for _, d := range q.Deps {
					if d.On != p.Name {
						continue
					}
					for _, in := range x.Insts[q.Name] {
						if in.Launch < sb && (in.Exit < 0 || in.Exit > sb) {
							n++
						}
					}
				}
			}
			alive := false
			for _, in := range x.Insts[p.Name] {
				if in.Launch < sb && (in.Exit < 0 || in.Exit > sb) {
					alive = true
				}
			}
			if alive && n >= 2 {
				nt = true
				labels = append(labels, "fan-in>=2")
			} else if alive && n == 1 {
				labels = append(labels, "fan-in=1")
			}
		}
		return nt, labels
	},
})

func TestC12(t *testing.T) { replayOr(t, jC12) }

// ---------------------------------------------------------------- C09

var jC09 = reg(&Judge{
	Prop: "C09", Test: "TestC09",
	Profile: Profile{MinProcs: 1, MaxProcs: 5, EdgeProb: 40, Conds: allConds,
		Policies: []string{"", "no", "always", "on_failure", "exit_on_failure"}, MaxRestartsMax: 2, BackoffMax: 1,
		Probes: true, ReadyLines: true, MaxSteps: 10, Codes: []int{0, 1, 3, -1},
		ExitOnFlags: true, StartErr: true, BadDir: true, SignalBeh: []string{"", "", "hold", "ignore"}, Disabled: true,
		APIOps: []string{sc.OpStart, sc.OpStop, sc.OpRestart, sc.OpShutdown}, UnknownNames: true,
		// snapshots taken while a process is parked between exit and relaunch show the transient states
		// (not run.afterWait: there the command has exited and the supervisor has not yet been allowed to notice)
		Holds: []string{"run.afterBackoff", "run.afterTerminatingCheck"}, HoldOps: []string{sc.OpStop}, BackoffStops: true},
	Oracle: oracle.C09,
	Classify: func(h *sc.History, x *oracle.Idx) (bool, []string) {
		var labels []string
		nt := false
		cnt := map[string]int{}
		special := map[string]bool{}
		for _, e := range h.Events {
			if e.Kind == world.EvState {
				cnt[e.Proc]++
				labels = append(labels, "state:"+e.Text)
				switch e.Text {
				case "Restarting", "Terminating", "Skipped", "Error":
					special[e.Proc] = true
				}
			}
		}
		for p, n := range cnt {
			if n >= 3 && special[p] {
				nt = true
			}
		}
		return nt, labels
	},
})

func TestC09(t *testing.T) { replayOr(t, jC09) }

// ---------------------------------------------------------------- C08

var jC08 = reg(&Judge{
	Prop: "C08", Test: "TestC08",
	Profile: Profile{MinProcs: 1, MaxProcs: 3, EdgeProb: 30, Conds: []string{"process_completed", "process_started", "process_completed_successfully"},
		Policies: []string{"", "no", "always", "on_failure"}, MaxRestartsMax: 2, BackoffMax: 1,
		MaxSteps: 16, Codes: []int{0, 1}, SignalBeh: []string{"", "", "", "hold"},
		APIOps: []string{sc.OpStart, sc.OpStop, sc.OpRestart, sc.OpStart, sc.OpStop, sc.OpRestart, sc.OpStopMany}, UnknownNames: true,
		ShutdownCfg: true,
		// a start request served while Run() is still spinning the project up
		Holds: []string{"run.loop"}, HoldOps: []string{sc.OpStart},
		// requests on instances that still wait for their dependencies, the end of what they wait
		// for, then further requests on the same process (the C08 judge reads the event log only)
		RestartPendingOK: true, PendingChurn: true},
	Oracle: oracle.C08,
	Classify: func(h *sc.History, x *oracle.Idx) (bool, []string) {
		var labels []string
		nt := false
		onLive := map[string]bool{}
		for _, a := range h.Applied {
			if !a.Applicable {
				continue
			}
			op := a.Step.Op
			if op != sc.OpStart && op != sc.OpStop && op != sc.OpRestart {
				continue
			}
			st := x.LastStateBefore(a.Step.Proc, a.SeqBefore)
			if st == "" {
				st = "none"
				if sp := h.Scenario.Spec(a.Step.Proc); sp != nil && oracle.PendingInstanceAt(h.Events, a.Step.Proc, a.SeqBefore, !sp.Disabled && !sp.Foreground) {
					st = "pending"
				}
			}
			labels = append(labels, op+"-on:"+st)
			if onLive[a.Step.Proc] {
				nt = true
			}
			if st == "Running" {
				onLive[a.Step.Proc] = true
			}
		}
		return nt, labels
	},
})

func TestC08(t *testing.T) { replayOr(t, jC08) }
