// Package pbt is the common frame of the non-lifecycle checks: a rapid generator for a
// JSON-serialisable case, a check function with an explicit oracle, evidence statistics,
// a replay file for the (shrunk) failing case, and replay without rapid.
package pbt

import (
	"encoding/json"
	"fmt"
	"os"
	"path/filepath"
	"testing"

	"pgregory.net/rapid"

	"verif/harness/stats"
)

// Verdict of one case.
type Verdict struct {
	Violations []string // empty = the property held on this case
	Known      []string // ids of known findings this case ran into
	NonTrivial bool
	Labels     []string
	Skip       bool     // case outside the domain (counted as inconclusive)
	Excluded   []string // ids of known findings whose class the generator avoided in this case
}

type Failure[C any] struct {
	Prop       string   `json:"prop"`
	Engine     string   `json:"engine"`
	Test       string   `json:"test"`
	Violations []string `json:"violations"`
	Case       C        `json:"case"`
}

type Spec[C any] struct {
	Prop, Test, Engine string
	Gen                func(t *rapid.T) C
	Check              func(c C) Verdict
	Sample             func(c C) any // compact rendering for the evidence (default: the case itself)
	ReplayRuns         int           // how often a replay file is run (default 1)
}

func writeFailure[C any](f *Failure[C]) string {
	dir := os.Getenv("VERIF_FAIL_DIR")
	if dir == "" {
		dir = os.TempDir()
	}
	p := filepath.Join(dir, f.Prop+"-"+f.Test+".json")
	b, _ := json.MarshalIndent(f, "", " ")
	_ = os.WriteFile(p, b, 0o644)
	return p
}

// Abort reports a violation from inside a check that cannot go on (the system under test no
// longer answers, so neither the case's clean-up nor shrinking can run): the replay file is
// written, the violation is printed and the test process ends at once.
func Abort[C any](prop, engine, test string, c C, msg string) {
	if os.Getenv("VERIF_REPLAY") != "" {
		fmt.Printf("REPLAY-VIOLATION %s: %s\n", prop, msg)
		os.Exit(1)
	}
	p := writeFailure(&Failure[C]{Prop: prop, Engine: engine, Test: test, Violations: []string{msg}, Case: c})
	fmt.Printf("VIOLATION %s: %s\nreplay file: %s (not shrunk: the system under test stopped answering)\n", prop, msg, p)
	os.Exit(3)
}

// Run executes the spec: a replay when VERIF_REPLAY is set, the generated campaign otherwise.
func Run[C any](t *testing.T, s Spec[C]) {
	if f := os.Getenv("VERIF_REPLAY"); f != "" {
		b, err := os.ReadFile(f)
		if err != nil {
			t.Fatalf("cannot read %s: %v", f, err)
		}
		var fl Failure[C]
		if err := json.Unmarshal(b, &fl); err != nil {
			t.Fatalf("bad replay file %s: %v", f, err)
		}
		runs := s.ReplayRuns
		if runs < 1 {
			runs = 1
		}
		// (a case whose outcome depends on map iteration order or scheduling is replayed several times)
		for i := 0; i < runs; i++ {
			v := s.Check(fl.Case)
			for _, k := range v.Known {
				fmt.Printf("REPLAY-KNOWN %s\n", k)
			}
			if len(v.Violations) > 0 {
				fmt.Printf("REPLAY-VIOLATION %s: %s\n", s.Prop, v.Violations[0])
				t.Fail()
				return
			}
		}
		fmt.Printf("REPLAY-OK %s\n", s.Prop)
		return
	}
	col := stats.New(s.Prop, s.Test)
	defer col.Flush()
	rapid.Check(t, func(rt *rapid.T) {
		c := s.Gen(rt)
		v := s.Check(c)
		Record(col, s, c, v, func(msg string) { rt.Fatalf("%s", msg) })
		if v.Skip {
			rt.Skip("outside the domain")
		}
	})
}

// Record books one verdict; fail is called for a violation (after the replay file is written).
func Record[C any](col *stats.Collector, s Spec[C], c C, v Verdict, fail func(string)) {
	for _, k := range v.Known {
		col.KnownHit(k)
	}
	for _, k := range v.Excluded {
		col.Exclude(k)
	}
	if v.Skip {
		col.Inconclusive()
		return
	}
	if len(v.Violations) > 0 {
		fl := &Failure[C]{Prop: s.Prop, Engine: s.Engine, Test: s.Test, Violations: v.Violations, Case: c}
		p := writeFailure(fl)
		col.Violation(v.Violations)
		col.Flush()
		fail(fmt.Sprintf("VIOLATION %s: %s\nreplay file: %s", s.Prop, v.Violations[0], p))
		return
	}
	fp, _ := json.Marshal(c)
	var smp any = c
	if s.Sample != nil {
		smp = s.Sample(c)
	}
	col.Case(fp, v.NonTrivial, v.Labels, smp)
}

// Enumerate runs the check over an explicitly enumerated finite space (no rapid).
func Enumerate[C any](t *testing.T, s Spec[C], each func(yield func(C) bool)) {
	if os.Getenv("VERIF_REPLAY") != "" {
		Run(t, s)
		return
	}
	col := stats.New(s.Prop, s.Test)
	col.Exhaustive = true
	defer col.Flush()
	failed := false
	each(func(c C) bool {
		v := s.Check(c)
		Record(col, s, c, v, func(msg string) { failed = true; t.Errorf("%s", msg) })
		return !failed
	})
}

// Fair random bits built from Bool draws (rapid's integer generators are biased to small values).
func Bits(t *rapid.T, k int) int {
	v := 0
	for i := 0; i < k; i++ {
		v <<= 1
		if rapid.Bool().Draw(t, "bit") {
			v |= 1
		}
	}
	return v
}

func Pct(t *rapid.T, p int) bool {
	if p <= 0 {
		return false
	}
	if p >= 100 {
		return true
	}
	return Bits(t, 7) >= 128-(p*128+50)/100
}

func Range(t *rapid.T, lo, hi int) int {
	if hi <= lo {
		return lo
	}
	n := hi - lo + 1
	k := 1
	for (1 << k) < n {
		k++
	}
	return lo + Bits(t, k+3)%n
}

func Pick[T any](t *rapid.T, xs []T) T { return xs[Range(t, 0, len(xs)-1)] }
