package lifecycle

import (
	"fmt"
	"os"
	"testing"
	"time"

	"verif/harness/sc"
	"verif/harness/world"
)

// TestStressShutdownChurn is a triage tool: a restarting process whose command keeps exiting
// while a project shutdown arrives at an arbitrary moment.
func TestStressShutdownChurn(t *testing.T) {
	if os.Getenv("VERIF_STRESS") == "" {
		t.Skip()
	}
	for iter := 0; iter < 3000; iter++ {
		s := &sc.Scenario{Procs: []sc.ProcSpec{{Name: "a", Restart: "always"}, {Name: "keeper"}}, TimeUnitMs: 1, NoFinish: true}
		e, err := sc.Begin(s)
		if err != nil {
			t.Fatal(err)
		}
		stop := make(chan struct{})
		go func() {
			for {
				select {
				case <-stop:
					return
				default:
				}
				for _, c := range e.W.LiveCmds("a") {
					c.Exit(1)
				}
				time.Sleep(200 * time.Microsecond)
			}
		}()
		time.Sleep(time.Duration(iter%7) * 300 * time.Microsecond)
		done := make(chan struct{})
		go func() { _ = e.R.ShutDownProject(); close(done) }()
		select {
		case <-done:
		case <-time.After(5 * time.Second):
			close(stop)
			t.Fatalf("iter %d: shutdown did not return\n%s", iter, traceOf(e))
		}
		n0 := e.W.NumEvents()
		time.Sleep(20 * time.Millisecond)
		close(stop)
		launches := 0
		for _, ev := range e.W.Events()[n0:] {
			if ev.Kind == world.EvLaunch {
				launches++
			}
		}
		if launches > 0 {
			evs := e.W.Events()
			from := n0 - 25
			if from < 0 {
				from = 0
			}
			to := n0 + 10
			if to > len(evs) {
				to = len(evs)
			}
			msg := ""
			for _, ev := range evs[from:to] {
				msg += fmt.Sprintf("%d %s %s inst=%d %s\n", ev.Seq, ev.Kind, ev.Proc, ev.Inst, ev.Text)
			}
			t.Fatalf("iter %d: %d launches after ShutDownProject returned (events before: %d)\n%s", iter, launches, n0, msg)
		}
		for _, c := range e.W.LiveCmds("") {
			c.Exit(0)
		}
		e.Finish()
	}
}

func traceOf(e *sc.Exec) string {
	evs := e.W.Events()
	if len(evs) > 40 {
		evs = evs[len(evs)-40:]
	}
	msg := ""
	for _, ev := range evs {
		msg += fmt.Sprintf("%d %s %s inst=%d %s\n", ev.Seq, ev.Kind, ev.Proc, ev.Inst, ev.Text)
	}
	return msg
}
