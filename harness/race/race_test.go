package race

import (
	"fmt"
	"math/rand"
	"net/http/httptest"
	"os"
	"strings"
	"sync"
	"testing"
	"time"

	"github.com/f1bonacc1/process-compose/src/api"
	"github.com/f1bonacc1/process-compose/src/app"
	"github.com/f1bonacc1/process-compose/src/command"
	"github.com/f1bonacc1/process-compose/src/pclog"
	"github.com/f1bonacc1/process-compose/src/types"
	"github.com/gin-gonic/gin"
	"github.com/gorilla/websocket"
	"github.com/rs/zerolog"
	"github.com/rs/zerolog/log"
	"pgregory.net/rapid"

	"verif/harness/known"
	"verif/harness/pbt"
	"verif/harness/sc"
	"verif/harness/world"
)

func init() { log.Logger = zerolog.Nop() }

func TestMain(m *testing.M) {
	code := m.Run()
	os.RemoveAll(sc.TmpRoot())
	os.Exit(code)
}

// ConcCase: a set of API operations released together, round after round, against a project
// whose processes keep logging, exiting and restarting.
type ConcCase struct {
	Ops    []COp `json:"ops"`
	Rounds int   `json:"rounds"`
	Seed   int64 `json:"seed"` // for the churn goroutine only
	Final  bool  `json:"final_shutdown"`
}

type COp struct {
	Kind string `json:"kind"`
	Name string `json:"name,omitempty"`
	N    int    `json:"n,omitempty"`
}

func raceProcs(web int) []sc.ProcSpec {
	return []sc.ProcSpec{
		{Name: "keeper", Command: "keep"},
		{Name: "a", Command: "a", Restart: "always"},
		{Name: "b", Command: "b", Restart: "on_failure", Backoff: 1},
		{Name: "web", Replicas: web, Command: "serve {{.PC_REPLICA_NUM}}", Restart: "always"},
		{Name: "job", Command: "job"},
		{Name: "dep", Command: "dep", Deps: []sc.Dep{{On: "job", Cond: "process_completed"}}},
	}
}

var mutating = map[string]bool{"start": true, "stop": true, "restart": true, "scale": true, "update": true, "shutdown": true}

func checkConc(c ConcCase) pbt.Verdict {
	var v pbt.Verdict
	dir, err := os.MkdirTemp(sc.TmpRoot(), "race-")
	if err != nil {
		v.Skip = true
		return v
	}
	defer os.RemoveAll(dir)
	prj, err := sc.LoadProject(dir, raceProcs(2), false, 0)
	if err != nil {
		v.Violations = append(v.Violations, "load: "+err.Error())
		return v
	}
	w := world.New()
	app.SetVerifHooks(&app.VerifHooks{
		Commander: func(conf *types.ProcessConfig, exe string, args []string) command.Commander {
			return w.NewCmd(conf.Name, conf.ReplicaName, conf.ReplicaNum, exe, args)
		},
		TimeUnit:       2 * time.Millisecond,
		InjectedProbes: true,
	})
	defer app.SetVerifHooks(nil)
	r, err := app.NewProjectRunner((&app.ProjectOpts{}).WithProject(prj).WithIsTuiOn(true))
	if err != nil {
		v.Violations = append(v.Violations, "runner: "+err.Error())
		return v
	}
	runDone := make(chan struct{})
	go func() { _ = r.Run(); close(runDone) }()
	// requests before Run() has set up its maps are outside the domain: wait for the first launch
	if !w.WaitFor(5*time.Second, func() bool { return len(w.EventsLocked()) > 0 }) {
		v.Skip = true
		return v
	}

	// churn: processes log, exit and get restarted all the time
	stopChurn := make(chan struct{})
	var churnWG sync.WaitGroup
	churnWG.Add(1)
	go func() {
		defer churnWG.Done()
		rng := rand.New(rand.NewSource(c.Seed))
		for {
			select {
			case <-stopChurn:
				return
			default:
			}
			live := w.LiveCmds("")
			if len(live) > 0 {
				cmd := live[rng.Intn(len(live))]
				if cmd.Name != "keeper" {
					switch rng.Intn(4) {
					case 0:
						cmd.Exit(rng.Intn(2))
					default:
						cmd.Write(1+rng.Intn(2), fmt.Sprintf("line %d\n", rng.Int()), "", 200*time.Millisecond)
					}
				}
			}
			time.Sleep(time.Duration(50+rng.Intn(300)) * time.Microsecond)
		}
	}()

	obs := pclog.NewConnector(func([]string) {}, func(string) (int, error) { return 0, nil }, 5)
	// the REST / websocket front end on top of the same runner, started on first use
	var srvOnce sync.Once
	var srv *httptest.Server
	defer func() {
		if srv != nil {
			srv.Close()
		}
	}()
	doOp := func(op COp) {
		switch op.Kind {
		case "wslogs":
			// one websocket connection following the logs of two processes, as `process logs a,b -f` does
			srvOnce.Do(func() {
				gin.SetMode(gin.ReleaseMode)
				srv = httptest.NewServer(api.InitRoutes(false, api.NewPcApi(r)))
			})
			u := "ws" + strings.TrimPrefix(srv.URL, "http") + "/process/logs/ws?name=" + op.Name + ",b&offset=3&follow=true"
			ws, _, err := websocket.DefaultDialer.Dial(u, nil)
			if err != nil {
				return
			}
			_ = ws.SetReadDeadline(time.Now().Add(60 * time.Millisecond))
			for i := 0; i < 12; i++ {
				if _, _, err := ws.ReadMessage(); err != nil {
					break
				}
			}
			_ = ws.Close()
		case "states":
			_, _ = r.GetProcessesState()
		case "state":
			_, _ = r.GetProcessState(op.Name)
		case "info":
			_, _ = r.GetProcessInfo(op.Name)
		case "log":
			_, _ = r.GetProcessLog(op.Name, 10, 5)
			_ = r.GetProcessLogLength(op.Name)
		case "subscribe":
			o := pclog.NewConnector(func([]string) {}, func(string) (int, error) { return 0, nil }, 3)
			if r.GetLogsAndSubscribe(op.Name, o) == nil {
				_ = r.UnSubscribeLogger(op.Name, o)
			}
		case "projstate":
			_, _ = r.GetProjectState(false)
		case "names":
			_, _ = r.GetLexicographicProcessNames()
		case "start":
			_ = r.StartProcess(op.Name)
		case "stop":
			_ = r.StopProcess(op.Name)
		case "restart":
			_ = r.RestartProcess(op.Name)
		case "scale":
			_ = r.ScaleProcess(op.Name, op.N)
		case "update":
			// a freshly loaded project per request, as the REST handler and ReloadProject provide
			d, err := os.MkdirTemp(dir, "upd-")
			if err != nil {
				return
			}
			procs := raceProcs(2)
			if op.N%2 == 0 {
				procs = append(procs[:5], sc.ProcSpec{Name: "extra", Command: "extra"})
			}
			if np, err := sc.LoadProject(d, procs, false, 0); err == nil {
				_, _ = r.UpdateProject(np)
			}
		}
	}
	_ = obs
	blocked := ""
	for round := 0; round < c.Rounds && blocked == ""; round++ {
		var wg sync.WaitGroup
		gate := make(chan struct{})
		for _, op := range c.Ops {
			wg.Add(1)
			go func(op COp) {
				defer wg.Done()
				<-gate
				if op.Kind == "scale" {
					op.N = 1 + (op.N+round)%3
				}
				if op.Kind == "update" {
					op.N += round
				}
				doOp(op)
			}(op)
		}
		close(gate)
		done := make(chan struct{})
		go func() { wg.Wait(); close(done) }()
		select {
		case <-done:
		case <-time.After(20 * time.Second):
			blocked = fmt.Sprintf("round %d: an API call did not return within 20 s (ops %+v)\n%s", round, c.Ops, stacks())
		}
	}
	close(stopChurn)
	churnWG.Wait()
	if blocked != "" {
		if changesProcessSet(c.Ops) && known.Load().Active("C20-orphan-after-concurrent-scale") {
			v.Known = append(v.Known, "C20-orphan-after-concurrent-scale")
			return v
		}
		v.Violations = append(v.Violations, blocked)
		return v
	}
	// wind down: shutdown must complete, Run() must return
	sd := make(chan struct{})
	go func() { _ = r.ShutDownProject(); close(sd) }()
	deadline := time.After(20 * time.Second)
	for {
		for _, cmd := range w.LiveCmds("") {
			cmd.Exit(0)
		}
		select {
		case <-runDone:
			goto out
		case <-deadline:
			if changesProcessSet(c.Ops) && known.Load().Active("C20-orphan-after-concurrent-scale") {
				v.Known = append(v.Known, "C20-orphan-after-concurrent-scale")
				return v
			}
			diag := ""
			all := w.AllCmds()
			for _, cmd := range all {
				if cmd.Alive() {
					diag += fmt.Sprintf("ALIVE cmd %s inst %d; ", cmd.Replica, cmd.Inst)
				}
			}
			diag += fmt.Sprintf("%d commands started in total; ", len(all))
			for _, n := range []string{"a", "web-0", "web-1", "b", "dep", "job", "keeper"} {
				st, _ := r.GetProcessState(n)
				err := r.StopProcess(n)
				if st != nil {
					diag += fmt.Sprintf("%s: status=%s restarts=%d stop->%v; ", n, st.Status, st.Restarts, err)
				}
			}
			v.Violations = append(v.Violations, fmt.Sprintf("after the concurrent rounds (ops %+v) ShutDownProject/Run() did not finish within 20 s\ncommands: %s\n%s", c.Ops, diag, stacks()))
			return v
		case <-time.After(2 * time.Millisecond):
		}
	}
out:
	<-sd
	nm, nq := 0, 0
	for _, op := range c.Ops {
		if mutating[op.Kind] {
			nm++
		} else {
			nq++
		}
		v.Labels = append(v.Labels, "op:"+op.Kind)
	}
	v.NonTrivial = nm >= 1 && len(c.Ops) >= 2
	return v
}

// changesProcessSet: the op set contains a state-changing request. Such requests race with each
// other and with the processes' own restarts on the runner's maps and on the shared status
// record (recorded findings), and can leave an instance outside the maps.
func changesProcessSet(ops []COp) bool {
	for _, op := range ops {
		if mutating[op.Kind] {
			return true
		}
	}
	return false
}

func stacks() string {
	var b strings.Builder
	for _, g := range world.SUTGoroutines() {
		b.WriteString("[" + g.State + "]" + firstLines(g.Body, 10) + "\n\n")
	}
	return b.String()
}

func firstLines(s string, n int) string {
	l := strings.Split(strings.TrimSpace(s), "\n")
	if len(l) > n {
		l = l[:n]
	}
	return strings.Join(l, "\n")
}

// vocabulary of operations; `all` adds the ones that change the process set.
func vocabulary(all bool) []string {
	base := []string{"states", "state", "info", "log", "subscribe", "projstate", "names", "start", "stop", "restart", "wslogs"}
	if all {
		base = append(base, "scale", "scale", "update")
	}
	return base
}

func genConc(t *rapid.T) ConcCase {
	c := ConcCase{Rounds: 12, Seed: int64(pbt.Bits(t, 20))}
	n := pbt.Range(t, 2, 4)
	// half of the cases leave the process set alone (queries, start/stop/restart), half also scale and update
	voc := vocabulary(pbt.Pct(t, 50))
	for i := 0; i < n; i++ {
		k := pbt.Pick(t, voc)
		op := COp{Kind: k, Name: pbt.Pick(t, []string{"a", "b", "web-0", "web-1", "job", "dep", "ghost"}), N: pbt.Range(t, 0, 5)}
		if k == "scale" {
			op.Name = pbt.Pick(t, []string{"web-0", "web-0", "job"})
		}
		c.Ops = append(c.Ops, op)
	}
	return c
}

func TestC20(t *testing.T) {
	pbt.Run(t, pbt.Spec[ConcCase]{Prop: "C20", Test: "TestC20", Engine: "race", Gen: genConc, Check: checkConc})
}
