#!/usr/bin/env python3
"""Confirm a seeded change and run the checks against it, all in a scratch worktree of /repo.

  tools/seeded.py <dir with patch.diff, demo/, README.md> <seed id> <property> [<more checks>...]

Steps: worktree at /repo HEAD; the demonstration passes without the patch; the patch applies and
builds; the repository's own suite still passes; the demonstration fails with the patch; each
listed check is run with VERIF_REPO=<worktree>. Writes /verif/seeded/<seed id>/{patch.diff,demo/,meta.json}.
"""
import glob, json, os, re, shutil, subprocess, sys, tempfile, time
ROOT = os.path.dirname(os.path.dirname(os.path.abspath(__file__)))


def sh(cmd, cwd=None, env=None, timeout=3600):
    return subprocess.run(cmd, cwd=cwd, env=env, stdout=subprocess.PIPE, stderr=subprocess.STDOUT, text=True, timeout=timeout)


def main():
    src, sid, prop = sys.argv[1], sys.argv[2], sys.argv[3]
    checks = [prop] + sys.argv[4:]
    out = os.path.join(ROOT, 'seeded', sid)
    os.makedirs(os.path.join(out, 'demo'), exist_ok=True)
    shutil.copy(os.path.join(src, 'patch.diff'), os.path.join(out, 'patch.diff'))
    demos = [f for f in glob.glob(os.path.join(src, 'demo', '*')) if os.path.isfile(f)]
    for f in demos:
        shutil.copy(f, os.path.join(out, 'demo'))
    if os.path.exists(os.path.join(src, 'README.md')):
        shutil.copy(os.path.join(src, 'README.md'), os.path.join(out, 'README.md'))
    w = tempfile.mkdtemp(prefix='seed-')
    repo = os.path.join(w, 'repo')
    meta = {'seed': sid, 'property': prop, 'ran': [], 'checks': {}}
    try:
        sh(['git', '-C', '/repo', 'worktree', 'add', '-q', '--detach', repo, 'HEAD'])
        meta['base_commit'] = sh(['git', '-C', repo, 'rev-parse', '--short', 'HEAD']).stdout.strip()
        # where does the demo go? package clause decides
        placed = []
        for f in demos:
            if not f.endswith('_test.go'):
                continue
            txt = open(f).read()
            m = re.search(r'^package\s+(\w+)', txt, re.M)
            pkg = m.group(1) if m else 'app'
            pkgdir = {'app': 'src/app', 'loader': 'src/loader', 'types': 'src/types', 'pclog': 'src/pclog', 'health': 'src/health', 'api': 'src/api', 'client': 'src/client', 'cmd': 'src/cmd', 'command': 'src/command', 'templater': 'src/templater'}.get(pkg.replace('_test', ''), 'src/app')
            md = re.match(r'//\s*dir:\s*(\S+)', txt)
            if md and os.path.isdir(os.path.join(repo, md.group(1))):
                pkgdir = md.group(1).rstrip('/')
            dst = os.path.join(repo, pkgdir, os.path.basename(f))
            shutil.copy(f, dst)
            placed.append((pkgdir, os.path.basename(f), txt))
        def run_demo():
            res = []
            for pkgdir, name, txt in placed:
                tests = re.findall(r'^func (Test\w+)\(', txt, re.M)
                r = sh(['go', 'test', '-vet=off', '-count=1', '-run', '^(' + '|'.join(tests) + ')$', './' + pkgdir + '/'], cwd=repo, timeout=900)
                res.append((r.returncode, r.stdout[-1500:]))
            return res
        d0 = run_demo()
        meta['demo_without_change'] = 'pass' if d0 and all(rc == 0 for rc, _ in d0) else 'FAIL'
        a = sh(['git', '-C', repo, 'apply', os.path.join(out, 'patch.diff')])
        meta['patch_applies'] = a.returncode == 0
        b = sh(['go', 'build', './...'], cwd=repo)
        meta['builds'] = b.returncode == 0
        # the repository's own suite, without the demonstration in the tree
        for pkgdir, name, _ in placed:
            os.remove(os.path.join(repo, pkgdir, name))
        t = sh(['go', 'test', '-vet=off', '-count=1', './src/...'], cwd=repo, timeout=1800)
        meta['existing_suite_with_change'] = 'pass' if t.returncode == 0 else 'FAIL'
        if t.returncode != 0:
            meta['existing_suite_output'] = t.stdout[-800:]
        for pkgdir, name, txt in placed:
            open(os.path.join(repo, pkgdir, name), 'w').write(txt)
        d1 = run_demo()
        meta['demo_with_change'] = 'fail' if d1 and any(rc != 0 for rc, _ in d1) else 'PASS'
        meta['demo_output_with_change'] = (d1[0][1][-600:] if d1 else '')
        # remove the demo before running the checks (it is not part of the change)
        for pkgdir, name, _ in placed:
            os.remove(os.path.join(repo, pkgdir, name))
        for c in checks:
            t0 = time.time()
            env = dict(os.environ, VERIF_REPO=repo)
            r = sh([os.path.join(ROOT, 'check'), c], env=env)
            first = ''
            for ln in r.stdout.splitlines():
                if 'VIOLATION ' in ln and 'property=' not in ln:
                    first = ln.strip()[:300]
                    break
            meta['checks'][c] = {'exit': r.returncode, 'verdict': {0: 'missed', 1: 'caught', 2: 'inconclusive'}.get(r.returncode, '?'), 'seconds': round(time.time() - t0), 'first_violation': first}
            meta['ran'].append('VERIF_REPO=<scratch worktree with patch> ./check %s' % c)
    finally:
        sh(['git', '-C', '/repo', 'worktree', 'remove', '--force', repo])
        shutil.rmtree(w, ignore_errors=True)
    old = {}
    mp = os.path.join(out, 'meta.json')
    if os.path.exists(mp):
        old = json.load(open(mp))
    old.update(meta)
    json.dump(old, open(mp, 'w'), indent=1)
    print(json.dumps({k: v for k, v in meta.items() if k != 'demo_output_with_change'}, indent=1))


if __name__ == '__main__':
    main()
