#!/usr/bin/env python3
"""Extract data-race signatures from go test -race output: the unordered pair of the innermost
process-compose (or harness) frames of the two conflicting accesses, without line numbers."""
import re, sys

def reports(text):
    """[(fn, file, line), (fn, file, line)] per race report: the innermost process-compose (or harness)
    frame of each of the two conflicting accesses"""
    out = []
    blocks = text.split('WARNING: DATA RACE')[1:]
    for blk in blocks:
        blk = blk.split('==================')[0]
        secs = re.split(r'\n(?=(?:Read|Write|Previous read|Previous write|Atomic|Previous atomic)[^\n]* by [^\n]*:\n)', '\n' + blk)
        accesses = [s for s in secs if re.match(r'\s*(Read|Write|Previous|Atomic)', s)]
        sides = []
        for s in accesses[:2]:
            lines = s.splitlines()[1:]
            found = None
            for i, ln in enumerate(lines):
                ln = ln.strip()
                if ln.startswith('Goroutine'):
                    break
                if not ln or ln.startswith('/') or not ln.endswith(')'):
                    continue
                f = ln.rsplit('(', 1)[0]
                if 'process-compose/src/' in f or 'verif/harness/' in f:
                    name = re.sub(r'^.*process-compose/src/', '', f)
                    name = re.sub(r'^.*verif/harness/', 'harness/', name)
                    name = re.sub(r'(\.func\d+|\.gowrap\d+|-fm|\.\d+)+$', '', name)
                    loc = lines[i + 1].strip() if i + 1 < len(lines) else ''
                    m = re.match(r'(/\S+\.go):(\d+)', loc)
                    found = (name, m.group(1) if m else '', int(m.group(2)) if m else 0)
                    break
            sides.append(found or ('runtime/other', '', 0))
        if len(sides) == 2:
            out.append(sides)
    return out


def signatures(text):
    out = {}
    blocks = text.split('WARNING: DATA RACE')[1:]
    for blk in blocks:
        blk = blk.split('==================')[0]
        # sections start with lines like "Read at 0x... by goroutine N:" / "Previous write at ..."
        secs = re.split(r'\n(?=(?:Read|Write|Previous read|Previous write|Atomic|Previous atomic)[^\n]* by [^\n]*:\n)', '\n' + blk)
        accesses = [s for s in secs if re.match(r'\s*(Read|Write|Previous|Atomic)', s)]
        fr = []
        for s in accesses[:2]:
            name = None
            for ln in s.splitlines()[1:]:
                ln = ln.strip()
                if not ln or ln.startswith('/') or ln.startswith('Goroutine'):
                    if ln.startswith('Goroutine'):
                        break
                    continue
                if not ln.endswith(')'):
                    continue
                f = ln.rsplit('(', 1)[0]
                if 'process-compose/src/' in f or 'verif/harness/' in f:
                    name = re.sub(r'^.*process-compose/src/', '', f)
                    name = re.sub(r'^.*verif/harness/', 'harness/', name)
                    name = re.sub(r'\.func\d+(\.\d+)*$', '', name)
                    break
            fr.append(name or 'runtime/other')
        if len(fr) == 2:
            sig = ' <-> '.join(sorted(fr))
            out[sig] = out.get(sig, 0) + 1
    return out

if __name__ == '__main__':
    tot = {}
    for f in sys.argv[1:]:
        for k, v in signatures(open(f, errors='replace').read()).items():
            tot[k] = tot.get(k, 0) + v
    for k, v in sorted(tot.items()):
        print('%5d  %s' % (v, k))
