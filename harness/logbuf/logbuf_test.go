package logbuf

import (
	"fmt"
	"math"
	"net/http/httptest"
	"os"
	"runtime"
	"strings"
	"sync"
	"sync/atomic"
	"testing"
	"time"

	"github.com/f1bonacc1/process-compose/src/api"
	"github.com/f1bonacc1/process-compose/src/app"
	"github.com/f1bonacc1/process-compose/src/pclog"
	"github.com/gorilla/websocket"
	"github.com/rs/zerolog"
	"github.com/rs/zerolog/log"
	"pgregory.net/rapid"

	"verif/harness/known"
	"verif/harness/pbt"
)

func init() { log.Logger = zerolog.Nop() }

// ---------------------------------------------------------------- reference window

// window is the oracle for a range request over the stored lines.
func window(stored []string, off, lim int) []string {
	n := len(stored)
	if off < 0 {
		off = 0
	}
	if off > n {
		off = n
	}
	start := n - off
	end := n
	if lim >= 1 && lim < n-start { // not start+lim < n: the sum overflows for limits near MaxInt
		end = start + lim
	}
	return stored[start:end]
}

func eq(a, b []string) bool {
	if len(a) != len(b) {
		return false
	}
	for i := range a {
		if a[i] != b[i] {
			return false
		}
	}
	return true
}

func safeRange(b *pclog.ProcessLogBuffer, off, lim int) (res []string, panicked string) {
	defer func() {
		if r := recover(); r != nil {
			panicked = fmt.Sprint(r)
		}
	}()
	return append([]string(nil), b.GetLogRange(off, lim)...), ""
}

// ---------------------------------------------------------------- model based

type Op struct {
	Kind string `json:"k"` // w, r, sub, unsub, close
	Off  int    `json:"off,omitempty"`
	Lim  int    `json:"lim,omitempty"`
	Tail int    `json:"tail,omitempty"`
	ID   int    `json:"id,omitempty"`
	N    int    `json:"n,omitempty"` // w: number of lines written in one go
}

type ModelCase struct {
	Size int  `json:"size"`
	Ops  []Op `json:"ops"`
}

type follower struct {
	conn   *pclog.Connector
	got    []string
	want   []string
	active bool
}

func checkModel(c ModelCase) pbt.Verdict {
	var v pbt.Verdict
	b := pclog.NewLogBuffer(c.Size)
	var model []string
	fols := map[int]*follower{}
	written := 0
	trimmed := false
	interesting := false
	fail := func(format string, a ...any) pbt.Verdict {
		v.Violations = append(v.Violations, fmt.Sprintf(format, a...))
		return v
	}
	for i, op := range c.Ops {
		switch op.Kind {
		case "w":
			for k := 0; k < op.N; k++ {
				line := fmt.Sprintf("line-%d", written)
				written++
				b.Write(line)
				model = append(model, line)
				for _, f := range fols {
					if f.active {
						f.want = append(f.want, line)
					}
				}
			}
		case "r":
			n := b.GetLogLength()
			stored := model[len(model)-n:]
			got, p := safeRange(b, op.Off, op.Lim)
			if p != "" {
				return fail("op %d: GetLogRange(%d,%d) on %d stored lines panicked: %s", i, op.Off, op.Lim, n, p)
			}
			if want := window(stored, op.Off, op.Lim); !eq(got, want) {
				return fail("op %d: GetLogRange(%d,%d) on %d stored lines = %v, want %v", i, op.Off, op.Lim, n, got, want)
			}
			if op.Off > 0 && op.Lim > 0 && op.Off+op.Lim != n && n > 0 {
				interesting = true
			}
		case "sub":
			if fols[op.ID] != nil {
				continue
			}
			f := &follower{active: true}
			n := b.GetLogLength()
			stored := model[len(model)-n:]
			f.want = append(f.want, window(stored, op.Tail, 0)...)
			f.conn = pclog.NewConnector(func(lines []string) { f.got = append(f.got, lines...) },
				func(s string) (int, error) { f.got = append(f.got, s); return len(s), nil }, op.Tail)
			fols[op.ID] = f
			var p string
			func() {
				defer func() {
					if r := recover(); r != nil {
						p = fmt.Sprint(r)
					}
				}()
				b.GetLogsAndSubscribe(f.conn)
			}()
			if p != "" {
				return fail("op %d: GetLogsAndSubscribe(tail=%d) panicked: %s", i, op.Tail, p)
			}
			if written > 0 {
				interesting = true
			}
		case "resub":
			// a follower that is still subscribed subscribes again (to refresh its tail, or plainly):
			// it stays one follower - every later line once, one unsubscribe ends it
			if f := fols[op.ID]; f != nil && f.active {
				if op.N == 1 {
					n := b.GetLogLength()
					f.want = append(f.want, window(model[len(model)-n:], f.conn.GetTailLength(), 0)...)
					b.GetLogsAndSubscribe(f.conn)
				} else {
					b.Subscribe(f.conn)
				}
				interesting = true
				v.Labels = append(v.Labels, "resubscribe")
			}
		case "unsub":
			if f := fols[op.ID]; f != nil && f.active {
				b.UnSubscribe(f.conn)
				f.active = false
			}
		case "close":
			b.Close()
			for _, f := range fols {
				f.active = false
			}
		}
		// invariants after every step
		n := b.GetLogLength()
		if n > c.Size+256 {
			return fail("after op %d: %d lines stored, configured length %d: grows without bound", i, n, c.Size)
		}
		min := c.Size
		if written < min {
			min = written
		}
		if n < min {
			return fail("after op %d: only %d lines stored, %d written, configured length %d", i, n, written, c.Size)
		}
		if n > len(model) {
			return fail("after op %d: %d lines stored but only %d written", i, n, len(model))
		}
		if n < len(model) {
			trimmed = true
		}
		all, p := safeRange(b, n, 0)
		if p != "" {
			return fail("after op %d: reading the whole log panicked: %s", i, p)
		}
		if !eq(all, model[len(model)-n:]) {
			return fail("after op %d: stored lines are not the most recent %d written lines: %v", i, n, headTail(all))
		}
		for id, f := range fols {
			if !eq(f.got, f.want) {
				return fail("after op %d: follower %d received %v, want %v", i, id, headTail(f.got), headTail(f.want))
			}
		}
	}
	v.NonTrivial = interesting
	if trimmed {
		v.Labels = append(v.Labels, "trimmed")
	}
	if len(fols) > 0 {
		v.Labels = append(v.Labels, "followers")
	}
	v.Labels = append(v.Labels, fmt.Sprintf("size:%d", c.Size))
	return v
}

func headTail(s []string) string {
	if len(s) <= 8 {
		return fmt.Sprint(s)
	}
	return fmt.Sprintf("%v ... %v (%d lines)", s[:4], s[len(s)-4:], len(s))
}

func genModel(t *rapid.T) ModelCase {
	c := ModelCase{Size: pbt.Pick(t, []int{0, 1, 5, 50})}
	nops := pbt.Range(t, 1, 40)
	nextID := 0
	written := 0
	for i := 0; i < nops; i++ {
		switch pbt.Pick(t, []string{"w", "w", "w", "r", "r", "sub", "unsub", "close", "resub"}) {
		case "resub":
			if nextID > 0 {
				c.Ops = append(c.Ops, Op{Kind: "resub", ID: pbt.Range(t, 1, nextID), N: pbt.Range(t, 0, 1)})
			}
		case "w":
			n := pbt.Pick(t, []int{1, 1, 2, 3, 7, 60, 130})
			written += n
			c.Ops = append(c.Ops, Op{Kind: "w", N: n})
		case "r":
			hi := written + 3
			if hi > c.Size+110 {
				hi = c.Size + 110
			}
			op := Op{Kind: "r", Off: pbt.Range(t, -2, hi), Lim: pbt.Range(t, -2, hi)}
			if pbt.Pct(t, 12) {
				op.Off = pbt.Pick(t, extremeInts)
			}
			if pbt.Pct(t, 12) {
				op.Lim = pbt.Pick(t, extremeInts)
			}
			c.Ops = append(c.Ops, op)
		case "sub":
			nextID++
			c.Ops = append(c.Ops, Op{Kind: "sub", ID: nextID, Tail: pbt.Pick(t, []int{0, 1, 2, 5, 50, 1000, -1})})
		case "unsub":
			if nextID > 0 {
				c.Ops = append(c.Ops, Op{Kind: "unsub", ID: pbt.Range(t, 1, nextID)})
			}
		case "close":
			if pbt.Pct(t, 20) {
				c.Ops = append(c.Ops, Op{Kind: "close"})
			}
		}
	}
	return c
}

var modelSpec = pbt.Spec[ModelCase]{Prop: "C18", Test: "TestC18Model", Engine: "logbuf", Gen: genModel, Check: checkModel}

func TestC18Model(t *testing.T) { pbt.Run(t, modelSpec) }

// ---------------------------------------------------------------- exhaustive small windows

type WinCase struct {
	Len int `json:"len"`
	Off int `json:"off"`
	Lim int `json:"lim"`
}

func checkWin(c WinCase) pbt.Verdict {
	b := pclog.NewLogBuffer(50)
	var model []string
	for i := 0; i < c.Len; i++ {
		l := fmt.Sprintf("l%d", i)
		b.Write(l)
		model = append(model, l)
	}
	var v pbt.Verdict
	got, p := safeRange(b, c.Off, c.Lim)
	if p != "" {
		v.Violations = append(v.Violations, fmt.Sprintf("GetLogRange(%d,%d) on a %d-line log panicked: %s", c.Off, c.Lim, c.Len, p))
		return v
	}
	if want := window(model, c.Off, c.Lim); !eq(got, want) {
		v.Violations = append(v.Violations, fmt.Sprintf("GetLogRange(%d,%d) on a %d-line log = %v, want %v", c.Off, c.Lim, c.Len, got, want))
	}
	v.NonTrivial = c.Off > 0 && c.Lim > 0 && c.Off+c.Lim != c.Len && c.Len > 0
	return v
}

var extremeInts = []int{math.MinInt, math.MinInt + 1, math.MinInt32 - 1, math.MinInt32, -1 << 31, math.MaxInt32, math.MaxInt32 + 1, math.MaxInt - 1, math.MaxInt}

func TestC18Exhaustive(t *testing.T) {
	pbt.Enumerate(t, pbt.Spec[WinCase]{Prop: "C18", Test: "TestC18Exhaustive", Engine: "logbuf", Check: checkWin}, func(yield func(WinCase) bool) {
		for n := 0; n <= 12; n++ {
			for off := -2; off <= n+2; off++ {
				for lim := -2; lim <= n+2; lim++ {
					if !yield(WinCase{n, off, lim}) {
						return
					}
				}
			}
		}
		// "whatever numbers are passed": the ends of the integer range against every small value
		// (the REST route hands both numbers over unchecked)
		for n := 0; n <= 6; n++ {
			vals := append([]int{}, extremeInts...)
			for k := -2; k <= n+2; k++ {
				vals = append(vals, k, math.MaxInt-k, math.MinInt+k+2)
			}
			for _, off := range vals {
				for _, lim := range vals {
					small := func(x int) bool { return x >= -2 && x <= n+2 }
					if small(off) && small(lim) {
						continue // enumerated above
					}
					if !yield(WinCase{n, off, lim}) {
						return
					}
				}
			}
		}
	})
}

// ---------------------------------------------------------------- concurrent hand-over

type ConcCase struct {
	Size   int `json:"size"`
	Lines  int `json:"lines"`
	Before int `json:"before"` // lines written before the writer goes concurrent
	Tail   int `json:"tail"`
	Spin   int `json:"spin"` // scheduler yields before subscribing
}

func checkConc(c ConcCase) pbt.Verdict {
	var v pbt.Verdict
	b := pclog.NewLogBuffer(c.Size)
	for i := 0; i < c.Before; i++ {
		b.Write(fmt.Sprintf("%d", i))
	}
	var mu sync.Mutex
	var got []string
	conn := pclog.NewConnector(func(l []string) { mu.Lock(); got = append(got, l...); mu.Unlock() },
		func(s string) (int, error) { mu.Lock(); got = append(got, s); mu.Unlock(); return len(s), nil }, c.Tail)
	var wg sync.WaitGroup
	wg.Add(1)
	go func() {
		defer wg.Done()
		for i := c.Before; i < c.Lines; i++ {
			b.Write(fmt.Sprintf("%d", i))
		}
	}()
	for i := 0; i < c.Spin; i++ {
		runtime.Gosched()
	}
	b.GetLogsAndSubscribe(conn)
	wg.Wait()
	mu.Lock()
	defer mu.Unlock()
	if len(got) == 0 {
		if c.Tail > 0 && c.Lines > 0 {
			v.Violations = append(v.Violations, fmt.Sprintf("follower with tail %d received nothing of %d lines", c.Tail, c.Lines))
		}
		return v
	}
	first := 0
	fmt.Sscanf(got[0], "%d", &first)
	for i, l := range got {
		if l != fmt.Sprintf("%d", first+i) {
			v.Violations = append(v.Violations, fmt.Sprintf("follower history has a gap or duplicate at position %d: got %q after %q, want %d (tail=%d, lines=%d)", i, l, got[max(0, i-1)], first+i, c.Tail, c.Lines))
			return v
		}
	}
	if last := first + len(got) - 1; last != c.Lines-1 {
		v.Violations = append(v.Violations, fmt.Sprintf("follower history ends at line %d, the writer wrote up to %d", last, c.Lines-1))
	}
	// hand-over happened mid-stream when the follower got part, but not all, of the concurrent lines through the tail
	v.NonTrivial = first+c.Tail > c.Before && first+c.Tail < c.Lines
	if v.NonTrivial {
		v.Labels = append(v.Labels, "subscribed-mid-stream")
	}
	return v
}

func genConc(t *rapid.T) ConcCase {
	c := ConcCase{Size: pbt.Pick(t, []int{5, 50, 1000}), Lines: pbt.Pick(t, []int{50, 300, 1000}), Tail: pbt.Pick(t, []int{0, 1, 3, 10}), Spin: pbt.Range(t, 0, 60)}
	c.Before = pbt.Range(t, 0, 20)
	return c
}

func TestC18Concurrent(t *testing.T) {
	pbt.Run(t, pbt.Spec[ConcCase]{Prop: "C18", Test: "TestC18Concurrent", Engine: "logbuf", Gen: genConc, Check: checkConc})
}

// ---------------------------------------------------------------- two writers (stdout and stderr pumps)

// TwoWCase: a process writes through two pumps at once; every follower must see the lines in the
// very order in which the log holds them.
type TwoWCase struct {
	Lines     int `json:"lines"`      // per writer
	Followers int `json:"followers"`  // 1..3
	SlowEvery int `json:"slow_every"` // follower 0 yields the processor on every n-th line (0: never)
}

type recFollower struct {
	mu   sync.Mutex
	got  []string
	slow int
	n    int
}

func checkTwoWriters(c TwoWCase) pbt.Verdict {
	var v pbt.Verdict
	b := pclog.NewLogBuffer(4 * c.Lines)
	var fols []*recFollower
	for i := 0; i < c.Followers; i++ {
		f := &recFollower{}
		if i == 0 {
			f.slow = c.SlowEvery
		}
		fols = append(fols, f)
		b.GetLogsAndSubscribe(pclog.NewConnector(func(l []string) {}, func(s string) (int, error) {
			f.mu.Lock()
			f.got = append(f.got, s)
			f.n++
			slow := f.slow > 0 && f.n%f.slow == 0
			f.mu.Unlock()
			if slow {
				runtime.Gosched()
			}
			return len(s), nil
		}, 0))
	}
	var wg sync.WaitGroup
	for _, tag := range []string{"out", "err"} {
		wg.Add(1)
		go func(tag string) {
			defer wg.Done()
			for i := 0; i < c.Lines; i++ {
				b.Write(fmt.Sprintf("%s-%d", tag, i))
			}
		}(tag)
	}
	wg.Wait()
	stored := append([]string(nil), b.GetLogRange(b.GetLogLength(), 0)...)
	if len(stored) != 2*c.Lines {
		v.Violations = append(v.Violations, fmt.Sprintf("two writers wrote %d lines, the log holds %d", 2*c.Lines, len(stored)))
		return v
	}
	interleaved := false
	for i := 1; i < len(stored); i++ {
		if stored[i][:3] != stored[i-1][:3] {
			interleaved = true
		}
	}
	for k, f := range fols {
		f.mu.Lock()
		got := append([]string(nil), f.got...)
		f.mu.Unlock()
		if !eq(got, stored) {
			pos := 0
			for pos < len(got) && pos < len(stored) && got[pos] == stored[pos] {
				pos++
			}
			v.Violations = append(v.Violations, fmt.Sprintf("follower %d saw the lines in another order than the log holds them (or lost some): first difference at position %d: follower %v, log %v (%d vs %d lines)", k, pos, headTail(got[pos:]), headTail(stored[pos:]), len(got), len(stored)))
			return v
		}
	}
	v.NonTrivial = interleaved
	if interleaved {
		v.Labels = append(v.Labels, "writers-interleaved")
	}
	return v
}

func TestC18TwoWriters(t *testing.T) {
	pbt.Run(t, pbt.Spec[TwoWCase]{Prop: "C18", Test: "TestC18TwoWriters", Engine: "logbuf",
		Gen: func(t *rapid.T) TwoWCase {
			return TwoWCase{Lines: pbt.Pick(t, []int{50, 400, 2000}), Followers: pbt.Range(t, 1, 3), SlowEvery: pbt.Pick(t, []int{0, 1, 7})}
		},
		Check: checkTwoWriters})
}

// ---------------------------------------------------------------- websocket followers

// logProject serves exactly what the websocket handler needs.
type logProject struct {
	app.IProject
	buf       *pclog.ProcessLogBuffer
	slowUnsub time.Duration
}

func (p *logProject) GetLogsAndSubscribe(name string, o pclog.LogObserver) error {
	if name != "proc" {
		return fmt.Errorf("no such process %s", name)
	}
	p.buf.GetLogsAndSubscribe(o)
	return nil
}
func (p *logProject) UnSubscribeLogger(name string, o pclog.LogObserver) error {
	if p.slowUnsub > 0 {
		// the runner may take its time (lock contention): the handler has left, the observer is still registered
		time.Sleep(p.slowUnsub)
	}
	p.buf.UnSubscribe(o)
	return nil
}

type WsCase struct {
	Before   int    `json:"before"`
	After    int    `json:"after"`
	Tail     int    `json:"tail"`
	Second   string `json:"second"` // behaviour of a second follower: none, reads, disconnects, stalls
	LineSize int    `json:"line_size"`
	// SlowUnsubMs: the runner's UnSubscribeLogger takes this long (the handler of a departed
	// client has already returned, its observer is still registered)
	SlowUnsubMs int `json:"slow_unsub_ms,omitempty"`
	// PaceUs: pause of the writer between two lines (microseconds)
	PaceUs int `json:"pace_us,omitempty"`
}

type wsMsg struct {
	Message string `json:"message"`
	Name    string `json:"process_name"`
}

func dial(srv *httptest.Server, tail int) (*websocket.Conn, error) {
	u := "ws" + strings.TrimPrefix(srv.URL, "http") + fmt.Sprintf("/process/logs/ws?name=proc&offset=%d&follow=true", tail)
	c, _, err := websocket.DefaultDialer.Dial(u, nil)
	return c, err
}

func checkWs(c WsCase) pbt.Verdict {
	var v pbt.Verdict
	kf := known.Load()
	buf := pclog.NewLogBuffer(1000)
	srv := httptest.NewServer(api.InitRoutes(false, api.NewPcApi(&logProject{buf: buf, slowUnsub: time.Duration(c.SlowUnsubMs) * time.Millisecond})))
	defer srv.Close()
	pad := strings.Repeat("x", c.LineSize)
	line := func(i int) string { return fmt.Sprintf("%d %s", i, pad) }
	for i := 0; i < c.Before; i++ {
		buf.Write(line(i))
	}
	var second *websocket.Conn
	if c.Second != "none" {
		var err error
		second, err = dial(srv, 0)
		if err != nil {
			v.Skip = true
			return v
		}
		defer second.Close()
		switch c.Second {
		case "reads":
			go func() {
				for {
					if _, _, err := second.ReadMessage(); err != nil {
						return
					}
				}
			}()
		case "disconnects":
			second.UnderlyingConn().Close()
		case "leaves":
			// reads a little, then goes away while the process keeps writing
			go func() {
				for i := 0; i < c.Tail+3; i++ {
					if _, _, err := second.ReadMessage(); err != nil {
						break
					}
				}
				second.UnderlyingConn().Close()
			}()
		}
	}
	ws, err := dial(srv, c.Tail)
	if err != nil {
		v.Skip = true
		return v
	}
	defer ws.Close()
	want := []string{}
	for _, l := range window(allLines(c.Before, line), c.Tail, 0) {
		want = append(want, l)
	}
	// the subscription is made by the handler after the upgrade: wait until the tail arrives
	// (or, with an empty tail, until the observer is registered) before writing on
	time.Sleep(30 * time.Millisecond)
	blocked := false
	wdone := make(chan struct{})
	var writerPanic atomic.Value
	go func() {
		defer close(wdone)
		defer func() {
			// the writer is the followed process's output handler: a panic here kills the supervisor
			if r := recover(); r != nil {
				writerPanic.Store(fmt.Sprint(r))
			}
		}()
		for i := c.Before; i < c.Before+c.After; i++ {
			buf.Write(line(i))
			if c.PaceUs > 0 {
				time.Sleep(time.Duration(c.PaceUs) * time.Microsecond)
			}
		}
	}()
	for i := c.Before; i < c.Before+c.After; i++ {
		want = append(want, line(i))
	}
	var got []string
	ws.SetReadDeadline(time.Now().Add(4 * time.Second))
	for len(got) < len(want) {
		var m wsMsg
		if err := ws.ReadJSON(&m); err != nil {
			break
		}
		got = append(got, m.Message)
	}
	select {
	case <-wdone:
	case <-time.After(3 * time.Second):
		blocked = true
	}
	runtime.KeepAlive(second)
	if p := writerPanic.Load(); p != nil {
		v.Violations = append(v.Violations, fmt.Sprintf("writing a line of the followed process panicked (second follower %s): %v", c.Second, p))
		return v
	}
	if blocked && c.Second == "stalls" && kf.Active("C18-stalled-ws-follower") {
		v.Known = append(v.Known, "C18-stalled-ws-follower")
		return v
	}
	if blocked {
		v.Violations = append(v.Violations, fmt.Sprintf("the writer of the followed process is blocked (second follower %s, %d lines of %d bytes)", c.Second, c.After, c.LineSize))
		return v
	}
	if !eq(got, want) {
		v.Violations = append(v.Violations, fmt.Sprintf("websocket follower (tail %d) received %s, want %s", c.Tail, headTail(short(got)), headTail(short(want))))
	}
	v.NonTrivial = c.Before > 0 && c.After > 0 && c.Tail > 0
	v.Labels = append(v.Labels, "second:"+c.Second)
	return v
}

func short(s []string) []string {
	out := make([]string, len(s))
	for i, l := range s {
		if len(l) > 12 {
			l = l[:12]
		}
		out[i] = l
	}
	return out
}

func allLines(n int, line func(int) string) []string {
	out := make([]string, n)
	for i := range out {
		out[i] = line(i)
	}
	return out
}

func genWs(t *rapid.T) WsCase {
	c := WsCase{Before: pbt.Pick(t, []int{0, 3, 30, 30, 300, 600}), After: pbt.Range(t, 0, 120), Tail: pbt.Pick(t, []int{0, 1, 5, 100, 257, 1000}),
		Second: pbt.Pick(t, []string{"none", "reads", "disconnects", "leaves", "leaves"}), LineSize: pbt.Pick(t, []int{1, 100, 4000})}
	if (c.Second == "leaves" || c.Second == "disconnects") && pbt.Pct(t, 40) {
		c.SlowUnsubMs = pbt.Pick(t, []int{5, 40})
	}
	c.PaceUs = pbt.Pick(t, []int{0, 0, 300, 1500})
	return c
}

func TestC18Websocket(t *testing.T) {
	pbt.Run(t, pbt.Spec[WsCase]{Prop: "C18", Test: "TestC18Websocket", Engine: "logbuf", Gen: genWs, Check: checkWs})
}

// TestC18Stalled replays the one recorded stalled-follower case (a known finding) when asked to.
func TestC18Stalled(t *testing.T) {
	if os.Getenv("VERIF_REPLAY") == "" {
		t.Skip("replay only")
	}
	pbt.Run(t, pbt.Spec[WsCase]{Prop: "C18", Test: "TestC18Stalled", Engine: "logbuf", Gen: genWs, Check: checkWs})
}
