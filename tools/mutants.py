#!/usr/bin/env python3
"""Sensitivity suite: apply one small source mutation at a time to a scratch worktree of
/repo, run the quick check(s) that should notice, and report. Never touches /repo itself.

  tools/mutants.py [--only ID[,ID..]] [--tests]   (--tests also runs the repo's own suite on the mutant)
"""
import json, os, subprocess, sys, tempfile, shutil, time
ROOT = os.path.dirname(os.path.dirname(os.path.abspath(__file__)))
MUT = json.load(open(os.path.join(ROOT, 'mutants', 'mutants.json')))


def sh(cmd, cwd=None, env=None, timeout=3600):
    return subprocess.run(cmd, cwd=cwd, env=env, stdout=subprocess.PIPE, stderr=subprocess.STDOUT, text=True, timeout=timeout)


def write_md(allr):
    by = {m['id']: m for m in MUT}
    lines = ['# Sensitivity: hand-written mutants', '',
             'Each mutant is one small source edit of process-compose (mutants.json) applied to a scratch worktree;',
             'the quick tier of the listed check is run against it with VERIF_REPO. `suite` is the repository\'s own',
             'test suite on the mutant (pass = the mutant survives the existing tests).', '',
             '| mutant / check | what the edit does | verdict | suite | first violation reported / note |', '|---|---|---|---|---|']
    n = k = 0
    for key in sorted(allr):
        mid = key.split('/')[0]
        if mid not in by:
            continue
        r = allr[key]
        m = by[mid]
        note = r['first_violation'].replace('|', '\\|')[:160]
        if r['verdict'] != 'KILLED' and m.get('note'):
            note = m['note']
        suite = 'pass' if 'suite:pass' in r['detail'] else ('FAIL' if 'suite:FAIL' in r['detail'] else '-')
        lines.append('| %s | %s | %s | %s | %s |' % (key, m['what'], r['verdict'], suite, note))
        n += 1
        k += r['verdict'] == 'KILLED'
    lines += ['', '%d runs, %d killed.' % (n, k), '']
    open(os.path.join(ROOT, 'mutants', 'RESULTS.md'), 'w').write('\n'.join(lines))


def main():
    only = None
    run_tests = '--tests' in sys.argv
    if '--only' in sys.argv:
        only = set(sys.argv[sys.argv.index('--only') + 1].split(','))
    results = []
    for m in MUT:
        if only and m['id'] not in only:
            continue
        w = tempfile.mkdtemp(prefix='mut-')
        repo = os.path.join(w, 'repo')
        try:
            r = sh(['git', '-C', '/repo', 'worktree', 'add', '-q', '--detach', repo, 'HEAD'])
            if r.returncode != 0:
                print(m['id'], 'worktree failed', r.stdout)
                continue
            ok = True
            for ed in m['edits']:
                p = os.path.join(repo, ed['file'])
                s = open(p).read()
                if s.count(ed['old']) != 1:
                    print('%s: pattern occurs %d times in %s' % (m['id'], s.count(ed['old']), ed['file']))
                    ok = False
                    break
                open(p, 'w').write(s.replace(ed['old'], ed['new']))
            if not ok:
                results.append((m['id'], 'PATTERN', ''))
                continue
            b = sh(['go', 'build', './...'], cwd=repo)
            if b.returncode != 0:
                results.append((m['id'], 'NOBUILD', b.stdout[-300:]))
                print(m['id'], 'NOBUILD', b.stdout[-300:])
                continue
            suite = ''
            if run_tests:
                t = sh(['go', 'test', '-vet=off', '-count=1', './src/...'], cwd=repo)
                suite = 'suite:' + ('pass' if t.returncode == 0 else 'FAIL')
            for p in m['props']:
                t0 = time.time()
                env = dict(os.environ, VERIF_REPO=repo)
                c = sh([os.path.join(ROOT, 'check'), p], env=env)
                first = ''
                for ln in c.stdout.splitlines():
                    if ln.startswith('VIOLATION ') and 'property=' not in ln or 'VIOLATION C' in ln:
                        first = ln.strip()[:220]
                        break
                verdict = {0: 'MISSED', 1: 'KILLED', 2: 'INCONCLUSIVE'}.get(c.returncode, str(c.returncode))
                results.append((m['id'] + '/' + p, verdict + ' %.0fs %s' % (time.time() - t0, suite), first))
                print('%-14s %-28s %s' % (m['id'] + '/' + p, verdict + ' %.0fs %s' % (time.time() - t0, suite), first), flush=True)
        finally:
            sh(['git', '-C', '/repo', 'worktree', 'remove', '--force', repo])
            shutil.rmtree(w, ignore_errors=True)
    # merge into mutants/results.json and regenerate mutants/RESULTS.md
    rp = os.path.join(ROOT, 'mutants', 'results.json')
    allr = json.load(open(rp)) if os.path.exists(rp) else {}
    head = sh(['git', '-C', '/repo', 'rev-parse', '--short', 'HEAD']).stdout.strip()
    for key, verdict, first in results:
        allr[key] = {'verdict': verdict.split()[0], 'detail': verdict, 'first_violation': first, 'repo_head': head}
    json.dump(allr, open(rp, 'w'), indent=1, sort_keys=True)
    write_md(allr)
    missed = [r for r in results if r[1].startswith('MISSED')]
    print('\n%d runs, %d missed' % (len(results), len(missed)))


if __name__ == '__main__':
    main()
