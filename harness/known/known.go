// Package known reads /verif/known_findings.json. Entries with status "known" are
// defects recorded but not repaired: their class is excluded from generation and a
// matching verdict is reported as KNOWN-FINDING instead of VIOLATION. Entries with
// status "fixed" suppress nothing.
package known

import (
	"encoding/json"
	"os"
	"path/filepath"
	"runtime"

	"verif/harness/oracle"
	"verif/harness/sc"
)

type Entry struct {
	ID       string `json:"id"`
	Property string `json:"property"`
	Status   string `json:"status"` // known | fixed
	Commit   string `json:"commit,omitempty"`
	What     string `json:"what"`
	Repro    string `json:"repro,omitempty"`
	Match    string `json:"signature,omitempty"` // human-readable description of the matcher
}

type Set struct {
	Entries []Entry
	byID    map[string]Entry
}

func Path() string {
	if p := os.Getenv("VERIF_KNOWN"); p != "" {
		return p
	}
	_, file, _, _ := runtime.Caller(0)
	return filepath.Join(filepath.Dir(file), "..", "..", "known_findings.json")
}

func Load() *Set {
	s := &Set{byID: map[string]Entry{}}
	b, err := os.ReadFile(Path())
	if err != nil {
		return s
	}
	var doc struct {
		Findings []Entry `json:"findings"`
	}
	if json.Unmarshal(b, &doc) != nil {
		return s
	}
	s.Entries = doc.Findings
	for _, e := range doc.Findings {
		s.byID[e.ID] = e
	}
	return s
}

// Active: is id listed with status "known" (i.e. still to be tolerated)?
func (s *Set) Active(id string) bool {
	e, ok := s.byID[id]
	return ok && e.Status == "known"
}

func (s *Set) Get(id string) (Entry, bool) { e, ok := s.byID[id]; return e, ok }

// LifecycleMatcher decides whether a verdict of a lifecycle oracle is an instance of a finding.
type LifecycleMatcher func(v oracle.V, h *sc.History, x *oracle.Idx) bool

var Lifecycle = map[string]LifecycleMatcher{}

// Match returns the id of the active known finding that explains v ("" if none).
func (s *Set) Match(v oracle.V, h *sc.History, x *oracle.Idx) string {
	for _, e := range s.Entries {
		if e.Status != "known" || e.Property != v.Prop {
			continue
		}
		if m := Lifecycle[e.ID]; m != nil && m(v, h, x) {
			return e.ID
		}
	}
	return ""
}
