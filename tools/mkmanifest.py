#!/usr/bin/env python3
"""Regenerate MANIFEST.json from tools/props.py and tools/manifest_meta.py."""
import json, os, subprocess, sys
ROOT = os.path.dirname(os.path.dirname(os.path.abspath(__file__)))
sys.path.insert(0, os.path.join(ROOT, 'tools'))
from props import PROPS
from manifest_meta import META, NOT_APPLICABLE, ENGINES

allp = [json.loads(l)['id'] for l in open(os.path.join(ROOT, 'properties.jsonl'))]
checks = []
for pid in allp:
    if pid not in PROPS:
        continue
    m = META[pid]
    checks.append({
        "property_id": pid,
        "quick_cmd": "./check %s --tier quick" % pid,
        "thorough_cmd": "./check %s --tier thorough" % pid,
        "evidence_file": "evidence/%s.json" % pid,
        "replay_cmd_template": "./check %s --replay {path}" % pid,
        "engine": m['engine'],
        "level_claimed": {"category": "exploration", "text": m['level_text'], "design_ref": "DESIGN.md section 5, " + pid},
        "level_note": m['level_note'],
        "technique": m['technique'],
    })
try:
    commits = subprocess.run(['git', '-C', '/repo', 'log', '--format=%H %s', '--grep=^verif hooks'], stdout=subprocess.PIPE, text=True).stdout.split('\n')
    commits = [c.split()[0] for c in commits if c.strip()]
except Exception:
    commits = []
man = {
    "version": 1,
    "setup_cmd": "python3 tools/setup.py",
    "hooks": {"guard": "verif",
              "enable": "go test -c -tags verif: the driver ./check builds the harness (module verif/harness, replace => /repo) with the tag on every invocation",
              "baseline_off_cmd": "cd /repo && go test -vet=off -count=1 -timeout 25m ./...",
              "source_commits": commits, "add_only": True},
    "engines": ENGINES,
    "checks": checks,
    "not_applicable": [{"property_id": p, "reason": NOT_APPLICABLE.get(p, "check not yet built in this round; not claimed")} for p in allp if p not in PROPS],
    "notes": "Every check is `./check <ID>`; see DESIGN.md. Known findings: known_findings.json.",
}
json.dump(man, open(os.path.join(ROOT, 'MANIFEST.json'), 'w'), indent=1)
print('manifest written:', len(checks), 'checks,', len(man['not_applicable']), 'not applicable')
