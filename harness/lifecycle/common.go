package lifecycle

import (
	"encoding/json"
	"fmt"
	"os"
	"path/filepath"
	"runtime"
	"strings"
	"sync"
	"testing"

	"pgregory.net/rapid"

	"verif/harness/known"
	"verif/harness/oracle"
	"verif/harness/sc"
	"verif/harness/stats"
	"verif/harness/world"
)

// Failure is the replay file written for a violating case.
type Failure struct {
	Prop       string       `json:"prop"`
	Engine     string       `json:"engine"`
	Test       string       `json:"test"`
	Violations []oracle.V   `json:"violations"`
	Scenario   *sc.Scenario `json:"scenario"`
	Trace      string       `json:"trace"`
	Parked     []string     `json:"parked,omitempty"`
}

var failMu sync.Mutex

func writeFailure(f *Failure) string {
	dir := os.Getenv("VERIF_FAIL_DIR")
	if dir == "" {
		dir = os.TempDir()
	}
	failMu.Lock()
	defer failMu.Unlock()
	p := filepath.Join(dir, f.Prop+"-"+f.Test+".json")
	b, _ := json.MarshalIndent(f, "", " ")
	_ = os.WriteFile(p, b, 0o644)
	return p
}

// Judge is the per-property part of a lifecycle check.
type Judge struct {
	Prop    string
	Test    string
	Profile Profile
	Oracle  func(x *oracle.Idx) []oracle.V
	// Classify returns whether the case is non-trivial by the property's rule, and its labels.
	Classify func(h *sc.History, x *oracle.Idx) (bool, []string)
	// Exclude returns the id of a known finding whose class the scenario falls into ("" = none).
	Exclude func(s *sc.Scenario) string
	// Prepare may adjust the generated project before execution.
	Prepare func(t *rapid.T, s *sc.Scenario)
}

func fingerprint(s *sc.Scenario) []byte {
	b, _ := json.Marshal(s)
	return b
}

// evaluate runs the oracle and splits its verdicts into known findings and new violations.
func evaluate(j *Judge, h *sc.History, kf *known.Set) (x *oracle.Idx, fresh []oracle.V, knownIDs []string) {
	x = oracle.Index(h)
	for _, v := range j.Oracle(x) {
		if id := kf.Match(v, h, x); id != "" {
			knownIDs = append(knownIDs, id)
			continue
		}
		fresh = append(fresh, v)
	}
	return
}

func runJudge(t *testing.T, j *Judge) {
	col := stats.New(j.Prop, j.Test)
	defer col.Flush()
	defer func() {
		col.Extra["goroutines_at_end"] = runtime.NumGoroutine()
		if os.Getenv("VERIF_DUMP_LEAKS") != "" {
			hist := map[string]int{}
			for _, g := range world.SUTGoroutines() {
				hist[g.State+" "+firstLines(g.Body, 8)]++
			}
			for k, v := range hist {
				fmt.Printf("LEAK x%d %s\n\n", v, k)
			}
		}
	}()
	kf := known.Load()
	OnExclude = func(id string) { col.Exclude(id) }
	defer func() { OnExclude = nil }()
	rapid.Check(t, func(rt *rapid.T) {
		s := GenProject(rt, j.Profile)
		if j.Prepare != nil {
			j.Prepare(rt, s)
		}
		if j.Exclude != nil {
			if id := j.Exclude(s); id != "" && kf.Active(id) {
				col.Exclude(id)
				rt.Skip("known finding class " + id)
			}
		}
		h := RunSteps(rt, s, j.Profile)
		if h.Busy != "" {
			col.Inconclusive()
			rt.Skip("quiescence not reached")
		}
		x, fresh, knownIDs := evaluate(j, h, kf)
		for _, id := range knownIDs {
			col.KnownHit(id)
		}
		nt, labels := j.Classify(h, x)
		if len(fresh) > 0 {
			fl := &Failure{Prop: j.Prop, Engine: "lifecycle", Test: j.Test, Violations: fresh, Scenario: s, Trace: h.Trace(), Parked: h.Parked}
			p := writeFailure(fl)
			col.Violation(fl.Violations)
			col.Flush()
			rt.Fatalf("VIOLATION %s: %v\nreplay file: %s\n%s", j.Prop, fresh[0], p, h.Trace())
		}
		if len(knownIDs) > 0 {
			labels = append(labels, "hit-known-finding")
		}
		col.Case(fingerprint(s), nt, labels, sampleOf(s))
	})
}

func sampleOf(s *sc.Scenario) any {
	type ps struct {
		Name    string   `json:"name"`
		Deps    []sc.Dep `json:"deps,omitempty"`
		Restart string   `json:"restart,omitempty"`
	}
	var procs []string
	for _, p := range s.Procs {
		d := p.Name
		for _, dp := range p.Deps {
			d += fmt.Sprintf(" <-%s:%s", dp.On, strings.TrimPrefix(dp.Cond, "process_"))
		}
		if p.Restart != "" {
			d += fmt.Sprintf(" restart=%s/%d/%d", p.Restart, p.MaxRestarts, p.Backoff)
		}
		if p.ExitOnEnd {
			d += " exit_on_end"
		}
		if p.ExitOnSkipped {
			d += " exit_on_skipped"
		}
		if p.BadDir {
			d += " bad_dir"
		}
		if p.Disabled {
			d += " disabled"
		}
		for k, b := range p.Beh {
			if b.StartErr {
				d += fmt.Sprintf(" starterr@%d", k)
			}
			if b.OnSignal != "" {
				d += fmt.Sprintf(" onsig@%d=%s", k, b.OnSignal)
			}
		}
		procs = append(procs, d)
	}
	var steps []string
	for _, st := range s.Steps {
		steps = append(steps, st.String())
	}
	return map[string]any{"procs": procs, "steps": steps, "ordered": s.Ordered}
}

// replayJudge re-executes a replay file (several times: the system is concurrent).
func replayJudge(t *testing.T, j *Judge, file string, times int) {
	b, err := os.ReadFile(file)
	if err != nil {
		t.Fatalf("cannot read %s: %v", file, err)
	}
	var fl Failure
	if err := json.Unmarshal(b, &fl); err != nil || fl.Scenario == nil {
		t.Fatalf("bad replay file %s: %v", file, err)
	}
	kf := known.Load()
	for i := 0; i < times; i++ {
		cp := cloneScenario(fl.Scenario)
		h := sc.Replay(cp)
		if h.Busy != "" {
			fmt.Printf("REPLAY inconclusive (quiescence not reached)\n")
			continue
		}
		_, fresh, knownIDs := evaluate(j, h, kf)
		for _, id := range knownIDs {
			fmt.Printf("REPLAY-KNOWN %s\n", id)
		}
		if len(fresh) > 0 {
			fmt.Printf("REPLAY-VIOLATION %s run %d: %v\n%s", j.Prop, i, fresh[0], h.Trace())
			t.Fail()
			return
		}
	}
	fmt.Printf("REPLAY-OK %s %d runs\n", j.Prop, times)
}

func cloneScenario(s *sc.Scenario) *sc.Scenario {
	b, _ := json.Marshal(s)
	var c sc.Scenario
	_ = json.Unmarshal(b, &c)
	return &c
}

func firstLines(s string, n int) string {
	l := strings.Split(strings.TrimSpace(s), "\n")
	if len(l) > n {
		l = l[:n]
	}
	return strings.Join(l, "\n")
}
