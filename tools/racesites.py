#!/usr/bin/env python3
"""Static table behind the C20 identity of a data race: for every function recorded as racy on the
pinned tree, the normalised text of every source line of its body (closures included).

A race report names, for each of the two accesses, a function and a file:line. The access is a
*recorded* one iff the function is recorded AND the text of that line (read from the tree under
test) is one of the lines the function had when the findings were recorded. On the unchanged tree
every line of a recorded function is in the table by construction, so the rule is exactly as quiet
as the function-level rule; a change that adds or rewrites a line in such a function and races
there is reported.

  tools/racesites.py            regenerate /verif/known_race_sites.json from /repo
"""
import glob, json, os, re, subprocess, sys
ROOT = os.path.dirname(os.path.dirname(os.path.abspath(__file__)))
REPO = os.environ.get('VERIF_REPO', '/repo')


def norm(line):
    return ' '.join(line.strip().split())


def functions_of(path):
    """{qualified name: [normalised body lines]} for the top-level functions of a gofmt'ed file"""
    out = {}
    pkg = os.path.basename(os.path.dirname(path))
    lines = open(path, errors='replace').read().splitlines()
    i = 0
    while i < len(lines):
        m = re.match(r'func (?:\((\w+)\s+(\*?)([\w.]+)(?:\[[^\]]*\])?\)\s*)?(\w+)\s*[\[(]', lines[i])
        if not m:
            i += 1
            continue
        recv_star, recv, name = m.group(2), m.group(3), m.group(4)
        if recv:
            q = '%s.(%s%s).%s' % (pkg, recv_star, recv, name) if recv_star else '%s.%s.%s' % (pkg, recv, name)
        else:
            q = '%s.%s' % (pkg, name)
        body = [norm(lines[i])]
        j = i
        if not lines[i].rstrip().endswith('}'):
            j = i + 1
            while j < len(lines) and lines[j] != '}':
                body.append(norm(lines[j]))
                j += 1
            body.append('}')
        out.setdefault(q, []).extend(body)
        i = j + 1
    return out


def main():
    known = json.load(open(os.path.join(ROOT, 'known_findings.json')))['findings']
    racy = sorted(set(k['racy_function'] for k in known if k.get('racy_function') and k.get('status') == 'known'))
    table = {}
    for path in glob.glob(os.path.join(REPO, 'src', '**', '*.go'), recursive=True):
        if path.endswith('_test.go'):
            continue
        for q, body in functions_of(path).items():
            table.setdefault(q, []).extend(body)
    sites, missing = {}, []
    for fn in racy:
        if fn.startswith('harness/'):
            continue
        if fn in table:
            sites[fn] = sorted(set(t for t in table[fn] if t))
        else:
            missing.append(fn)
    head = subprocess.run(['git', '-C', REPO, 'rev-parse', '--short', 'HEAD'], capture_output=True, text=True).stdout.strip()
    json.dump({'baseline': head, 'sites': sites}, open(os.path.join(ROOT, 'known_race_sites.json'), 'w'), indent=1, sort_keys=True)
    print('%d recorded functions, %d with a line table, %d lines; not found: %s' % (len(racy), len(sites), sum(len(v) for v in sites.values()), missing))


if __name__ == '__main__':
    main()
