// Package oracle holds the trace oracles of the lifecycle properties: pure functions
// over a recorded History (scenario + ground-truth event log + snapshots + API results).
// Nothing here imports src/app.
package oracle

import (
	"fmt"
	"strings"

	"verif/harness/sc"
	"verif/harness/world"
)

type V struct {
	Prop string `json:"prop"`
	Kind string `json:"kind"`
	Msg  string `json:"msg"`
}

func (v V) String() string { return v.Prop + "/" + v.Kind + ": " + v.Msg }

type Inst struct {
	Proc     string
	Inst     int
	K        int
	Launch   int // seq
	Exit     int // seq, -1 if none
	Code     int
	Cause    string
	Signals  []int // seq of stop events while alive
	LaunchT  int64
	ExitT    int64
	APIStart bool // launch caused by an explicit request
}

type Idx struct {
	H      *sc.History
	Ev     []world.Event
	Insts  map[string][]*Inst // by replica, in launch order
	ByInst map[int]*Inst
	End    int
}

func Index(h *sc.History) *Idx {
	x := &Idx{H: h, Ev: h.Events, Insts: map[string][]*Inst{}, ByInst: map[int]*Inst{}, End: len(h.Events)}
	for _, e := range h.Events {
		switch e.Kind {
		case world.EvLaunch:
			in := &Inst{Proc: e.Proc, Inst: e.Inst, K: e.Code, Launch: e.Seq, Exit: -1, LaunchT: int64(e.T)}
			x.Insts[e.Proc] = append(x.Insts[e.Proc], in)
			x.ByInst[e.Inst] = in
		case world.EvExit:
			if in := x.ByInst[e.Inst]; in != nil {
				in.Exit, in.Code, in.Cause, in.ExitT = e.Seq, e.Code, e.Cause, int64(e.T)
				if in.Proc != e.Proc { // renamed while alive
					x.Insts[e.Proc] = append(x.Insts[e.Proc], in)
				}
			}
		case world.EvStop:
			if in := x.ByInst[e.Inst]; in != nil {
				in.Signals = append(in.Signals, e.Seq)
			}
		}
	}
	for _, l := range x.Insts {
		for i, in := range l {
			from := 0
			if i > 0 {
				from = l[i-1].Launch
			}
			in.APIStart = x.apiStartBetween(in.Proc, from, in.Launch)
		}
	}
	return x
}

// SpecAt returns the spec of a config name in effect at seq (updates replace the base).
func (x *Idx) SpecAt(name string, seq int) *sc.ProcSpec {
	var sp *sc.ProcSpec = x.H.Scenario.Spec(name)
	for _, a := range x.H.Applied {
		if a.Step.Op == sc.OpUpdate && a.Applicable && a.SeqBefore <= seq {
			found := false
			for j := range a.Step.Procs {
				if a.Step.Procs[j].Name == name {
					sp = &a.Step.Procs[j]
					found = true
				}
			}
			if !found {
				sp = nil
			}
		}
	}
	return sp
}

func (x *Idx) Spec(name string) *sc.ProcSpec { return x.H.Scenario.Spec(name) }

// isStopReq: does the API event request the termination of proc?
func isStopReq(e world.Event, proc string) bool {
	if e.Kind != world.EvAPI {
		return false
	}
	switch e.Text {
	case sc.OpShutdown:
		return true
	case sc.OpStop, sc.OpRestart:
		return e.Proc == proc
	case sc.OpStopMany:
		for _, n := range strings.Split(e.Proc, ",") {
			if n == proc {
				return true
			}
		}
	case sc.OpUpdate:
		return true
	case sc.OpScale:
		return true
	}
	return false
}

// isStartReq: may the API event legitimately cause a launch of proc?
func isStartReq(e world.Event, proc string) bool {
	if e.Kind != world.EvAPI {
		return false
	}
	switch e.Text {
	case sc.OpStart, sc.OpRestart:
		return e.Proc == proc
	case sc.OpUpdate, sc.OpScale:
		return true
	}
	return false
}

func (x *Idx) apiStartBetween(proc string, from, to int) bool {
	for i := from; i < to && i < len(x.Ev); i++ {
		if isStartReq(x.Ev[i], proc) {
			return true
		}
	}
	return false
}

// FirstStopReq returns the seq of the first stop-ish request affecting proc in [from,to), or -1.
func (x *Idx) FirstStopReq(proc string, from, to int) int {
	for i := from; i < to && i < len(x.Ev); i++ {
		if isStopReq(x.Ev[i], proc) {
			return i
		}
	}
	return -1
}

// RetOf returns the seq of the return of the API call recorded at seq (or -1).
func (x *Idx) RetOf(callSeq int) int {
	id := x.Ev[callSeq].Inst
	for i := callSeq + 1; i < len(x.Ev); i++ {
		if x.Ev[i].Kind == world.EvAPIRet && x.Ev[i].Inst == id {
			return i
		}
	}
	return -1
}

// ShutdownBegin returns the seq of the first project-shutdown start (API or internal), or -1.
func (x *Idx) ShutdownBegin() int {
	for i, e := range x.Ev {
		if e.Kind == world.EvAPI && e.Text == sc.OpShutdown {
			return i
		}
		if e.Kind == world.EvMark && e.Text == "shutdown-begin" {
			return i
		}
	}
	return -1
}

func (x *Idx) has(from, to int, pred func(world.Event) bool) int {
	if to > len(x.Ev) {
		to = len(x.Ev)
	}
	for i := from; i < to; i++ {
		if pred(x.Ev[i]) {
			return i
		}
	}
	return -1
}

// LastStateBefore returns the last reported status of proc before seq ("" if none).
func (x *Idx) LastStateBefore(proc string, seq int) string {
	for i := seq - 1; i >= 0; i-- {
		if x.Ev[i].Kind == world.EvState && x.Ev[i].Proc == proc {
			return x.Ev[i].Text
		}
	}
	return ""
}

// Touched reports whether scale/update requests occurred (names may have changed).
func (x *Idx) Touched() bool {
	return x.has(0, x.End, func(e world.Event) bool {
		return e.Kind == world.EvAPI && (e.Text == sc.OpScale || e.Text == sc.OpUpdate)
	}) >= 0
}

func scheduled(sp *sc.ProcSpec) bool {
	return sp != nil && !sp.Disabled && !sp.Foreground
}

func f(format string, a ...any) string { return fmt.Sprintf(format, a...) }

// PendingInstanceAt: does proc have an instance that was created (by the start-up or by a
// start/restart request) and has not launched or ended yet at seq? Judged from the event log:
// the reported status does not tell (a re-started instance waits under its predecessor's status).
func PendingInstanceAt(ev []world.Event, proc string, seq int, initial bool) bool {
	created := -1
	if initial {
		created = 0
	}
	for i := 0; i < seq && i < len(ev); i++ {
		e := ev[i]
		if e.Kind == world.EvAPIRet && e.Proc == proc && (e.Text == sc.OpStart+" ok" || e.Text == sc.OpRestart+" ok") {
			created = i
		}
	}
	if created < 0 {
		return false
	}
	for i := created; i < seq && i < len(ev); i++ {
		e := ev[i]
		if e.Proc != proc {
			continue
		}
		if e.Kind == world.EvLaunch || e.Kind == world.EvStartFail {
			return false
		}
		if e.Kind == world.EvState && i > created && (e.Text == "Skipped" || e.Text == "Error" || e.Text == "Completed") {
			return false
		}
	}
	return true
}
