package lifecycle

import (
	"errors"
	"fmt"
	"os"
	"reflect"
	"sort"
	"strings"
	"testing"
	"verif/harness/oracle"

	"pgregory.net/rapid"

	"verif/harness/pbt"
	"verif/harness/sc"
	"verif/harness/world"
)

type UpdCase struct {
	P       []sc.ProcSpec   `json:"p"`
	Updates [][]sc.ProcSpec `json:"updates"`
	// GVs: value of the project-level variable GV in P (GVs[0]) and after each update; commands
	// may refer to it as {{.GV}}, so a configuration can change although no process entry does.
	GVs []string `json:"gvs,omitempty"`
	Twice   bool            `json:"twice"` // apply the last configuration a second time
	// Anchored: number of updates in which the generator put one process back unchanged because
	// the update would otherwise have touched every process (known finding C20-restart-last-process:
	// Run() returns when the last one is removed and the additions that follow panic the supervisor)
	Anchored int `json:"anchored,omitempty"`
}

// launchRelevant renders the fields the statement calls launch relevant.
func launchRelevant(p sc.ProcSpec) string {
	deps := append([]sc.Dep(nil), p.Deps...)
	sort.Slice(deps, func(i, j int) bool { return deps[i].On < deps[j].On })
	return fmt.Sprintf("cmd=%q ep=%q env=%q dir=%q ready=%v live=%v restart=%q/%d/%d eoe=%v eos=%v deps=%v",
		p.Command, p.Entrypoint, p.Env, p.WorkingDir, p.ReadyProbe, p.LiveProbe, p.Restart, p.MaxRestarts, p.Backoff, p.ExitOnEnd, p.ExitOnSkipped, deps)
}

// otherFields: differences here may or may not count as an update.
func otherFields(p sc.ProcSpec) string {
	return fmt.Sprintf("desc=%q ns=%q sig=%d disabled=%v", p.Description, p.Namespace, p.Signal, p.Disabled)
}

// byName: the configured processes by the name the runner knows them under; a process with
// replicas: n >= 2 is n processes named after its replicas.
func byName(l []sc.ProcSpec) map[string]sc.ProcSpec {
	m := map[string]sc.ProcSpec{}
	for _, p := range l {
		if p.Replicas < 2 {
			m[p.Name] = p
			continue
		}
		for r := 0; r < p.Replicas; r++ {
			q := p
			q.Name = refName(p.Name, p.Replicas, r)
			m[q.Name] = q
		}
	}
	return m
}

func expectedArgs(p sc.ProcSpec) (string, []string) {
	if len(p.Entrypoint) > 0 {
		return p.Entrypoint[0], p.Entrypoint[1:]
	}
	cmd := p.Command
	if cmd == "" {
		cmd = "run-" + p.Name
	}
	return "bash", []string{"-c", cmd}
}

// rendered: the specs as the loader renders them for the given value of GV.
func rendered(l []sc.ProcSpec, gv string) []sc.ProcSpec {
	out := append([]sc.ProcSpec(nil), l...)
	for i := range out {
		out[i].Command = strings.ReplaceAll(out[i].Command, "{{.GV}}", gv)
	}
	return out
}

func topOf(gv string) string { return "vars:\n  GV: " + gv + "\n" }

func checkUpd(c UpdCase) pbt.Verdict {
	var v pbt.Verdict
	fail := func(format string, a ...any) pbt.Verdict {
		v.Violations = append(v.Violations, fmt.Sprintf(format, a...))
		return v
	}
	s := &sc.Scenario{Procs: c.P, FinishRounds: 3}
	gvAt := func(i int) string {
		if i < len(c.GVs) {
			return c.GVs[i]
		}
		return ""
	}
	if len(c.GVs) > 0 {
		s.Top = topOf(gvAt(0))
	}
	e, err := sc.Begin(s)
	if errors.Is(err, sc.ErrLeftover) {
		v.Skip = true
		return v
	}
	if err != nil {
		return fail("load of P failed: %v\n%s", err, sc.YAML(c.P, false, 0))
	}
	finished := false
	defer func() {
		if !finished {
			e.Finish()
		}
	}()
	for i := 0; i < c.Anchored; i++ {
		v.Excluded = append(v.Excluded, "C20-restart-last-process")
	}
	cur := rendered(c.P, gvAt(0))
	updates := c.Updates
	gvs := append([]string(nil), c.GVs...)
	if c.Twice && len(updates) > 0 {
		updates = append(append([][]sc.ProcSpec(nil), updates...), updates[len(updates)-1])
		if len(gvs) > 0 {
			gvs = append(gvs, gvs[len(gvs)-1])
		}
	}
	for ui, raw := range updates {
		idem := c.Twice && ui == len(updates)-1
		top := ""
		next := raw
		if len(gvs) > 0 {
			top = topOf(gvs[ui+1])
			next = rendered(raw, gvs[ui+1])
			if gvs[ui+1] != gvs[ui] {
				v.Labels = append(v.Labels, "global-var-changed")
			}
		}
		oldM, newM := byName(cur), byName(next)
		liveBefore := map[string]*world.FakeCmd{}
		for _, cmd := range e.W.LiveCmds("") {
			liveBefore[cmd.Replica] = cmd
		}
		seq0 := e.W.NumEvents()
		if !e.Do(sc.Step{Op: sc.OpUpdate, Procs: raw, Top: top}) {
			return fail("update %d: P' was rejected by the loader\n%s", ui, sc.YAML(raw, false, 0))
		}
		if e.H.Busy != "" {
			v.Skip = true
			return v
		}
		call := e.H.Calls[len(e.H.Calls)-1]
		if call.SeqRet < 0 {
			var tr []string
			from := seq0
			if os.Getenv("VERIF_DEBUG_TRACE") != "" {
				from = 0
			}
			for _, ev := range e.W.Events()[from:] {
				tr = append(tr, ev.String())
			}
			return fail("update %d: UpdateProject did not return; parked: %s\nevents since the request: %s", ui, parkedNow(), strings.Join(tr, "; "))
		}
		if call.Err != "" {
			return fail("update %d: UpdateProject failed: %s", ui, call.Err)
		}
		evs := e.W.Events()[seq0:]
		touched := map[int]string{} // instance -> first stop/exit event
		launches := map[string][]world.Event{}
		for _, ev := range evs {
			switch ev.Kind {
			case world.EvStop, world.EvExit:
				if _, ok := touched[ev.Inst]; !ok {
					touched[ev.Inst] = ev.String()
				}
			case world.EvLaunch:
				launches[ev.Proc] = append(launches[ev.Proc], ev)
			}
		}
		status := call.Status
		want := map[string]string{}
		may := map[string]bool{}
		for name, np := range newM {
			op, ok := oldM[name]
			switch {
			case !ok:
				want[name] = "added"
			case launchRelevant(op) != launchRelevant(np):
				want[name] = "updated"
			case otherFields(op) != otherFields(np):
				may[name] = true
			}
		}
		for name := range oldM {
			if _, ok := newM[name]; !ok {
				want[name] = "removed"
			}
		}
		for name, w := range want {
			if status[name] != w {
				return fail("update %d: status map says %q for %s, want %q (full map %v)\nold: %s\nnew: %s", ui, status[name], name, w, status, launchRelevant(oldM[name]), launchRelevant(newM[name]))
			}
		}
		for name, got := range status {
			if _, ok := want[name]; !ok && !may[name] {
				return fail("update %d: status map names %s as %q although nothing launch-relevant changed (full map %v)", ui, name, got, status)
			}
		}
		if idem && len(status) != 0 {
			return fail("update %d: applying the same configuration again returned %v", ui, status)
		}
		// configured set
		sts, err := e.R.GetProcessesState()
		if err != nil {
			return fail("update %d: GetProcessesState: %v", ui, err)
		}
		listed := map[string]bool{}
		for _, st := range sts.States {
			listed[st.Name] = true
		}
		for name := range newM {
			if !listed[name] {
				return fail("update %d: %s is configured in P' but not listed", ui, name)
			}
		}
		for name := range listed {
			if _, ok := newM[name]; !ok {
				return fail("update %d: %s is listed but not configured in P'", ui, name)
			}
		}
		liveAfter := map[string][]*world.FakeCmd{}
		for _, cmd := range e.W.LiveCmds("") {
			liveAfter[cmd.Replica] = append(liveAfter[cmd.Replica], cmd)
		}
		for name, l := range liveAfter {
			if len(l) > 1 {
				return fail("update %d: %s has %d live commands", ui, name, len(l))
			}
		}
		for name, op := range oldM {
			old := liveBefore[name]
			np, stays := newM[name]
			switch {
			case !stays:
				if old != nil && old.Alive() {
					return fail("update %d: removed process %s is still alive (inst %d)", ui, name, old.Inst)
				}
				// an instance that was still pending may launch during the update (its dependency is
				// removed first and thereby "completes") before its own turn comes; nothing of a
				// removed process is alive afterwards, and one that was running is not launched again
				if len(liveAfter[name]) > 0 {
					return fail("update %d: removed process %s has a live command after the update (inst %d)", ui, name, liveAfter[name][0].Inst)
				}
				if old != nil && len(launches[name]) > 0 {
					return fail("update %d: removed process %s was launched again", ui, name)
				}
			case want[name] == "updated":
				if old != nil && old.Alive() {
					return fail("update %d: changed process %s kept its old instance %d alive\nold: %s\nnew: %s", ui, name, old.Inst, launchRelevant(op), launchRelevant(np))
				}
				if !np.Disabled && len(np.Deps) == 0 {
					// an old instance that was still pending may launch during the update (e.g. its
					// dependency is removed first and thereby "completes") before it is terminated;
					// one that was running is replaced by exactly one launch
					if n := len(launches[name]); n < 1 || (old != nil && n != 1) {
						return fail("update %d: changed process %s (running before: %v) was launched %d times", ui, name, old != nil, n)
					}
					if msg := launchedWith(liveAfter[name], np); msg != "" {
						return fail("update %d: changed process %s: %s", ui, name, msg)
					}
				}
			case !may[name]:
				// unchanged: the very same instance keeps running, untouched
				if old != nil {
					if ev, hit := touched[old.Inst]; hit {
						return fail("update %d: unchanged process %s was disturbed: %s", ui, name, ev)
					}
					if len(launches[name]) > 0 {
						return fail("update %d: unchanged process %s was launched again", ui, name)
					}
				}
			}
		}
		for name, np := range newM {
			if want[name] == "added" && !np.Disabled && len(np.Deps) == 0 {
				if len(launches[name]) != 1 {
					return fail("update %d: added process %s was launched %d times", ui, name, len(launches[name]))
				}
				if msg := launchedWith(liveAfter[name], np); msg != "" {
					return fail("update %d: added process %s: %s", ui, name, msg)
				}
			}
		}
		nChanged, nSame := 0, 0
		for name := range newM {
			if want[name] != "" {
				nChanged++
			} else if liveBefore[name] != nil {
				nSame++
			}
		}
		nChanged += len(oldM) - (len(newM) - countAdded(want))
		if nChanged > 0 && nSame > 0 {
			v.NonTrivial = true
		}
		for _, w := range want {
			v.Labels = append(v.Labels, w)
		}
		if idem {
			v.Labels = append(v.Labels, "idempotence")
		}
		cur = next
	}
	// the end game lets everything exit: whatever is launched from now on (dependents that were
	// pending, policy restarts) must belong to the last configuration and be launched as it says
	seqEnd := e.W.NumEvents()
	finished = true
	hist := e.Finish()
	if hist.Busy != "" {
		return v
	}
	final := byName(cur)
	byInst := map[int]*world.FakeCmd{}
	for _, cmd := range e.W.AllCmds() {
		byInst[cmd.Inst] = cmd
	}
	for _, ev := range hist.Events {
		if ev.Seq < seqEnd || ev.Kind != world.EvLaunch {
			continue
		}
		sp, ok := final[ev.Proc]
		if !ok {
			return fail("after the last update, %s was launched (seq %d) although the last configuration does not contain it", ev.Proc, ev.Seq)
		}
		if cmd := byInst[ev.Inst]; cmd != nil {
			if msg := launchedWith([]*world.FakeCmd{cmd}, sp); msg != "" {
				return fail("after the last update, %s (seq %d): %s", ev.Proc, ev.Seq, msg)
			}
		}
	}
	return v
}

func countAdded(w map[string]string) int {
	n := 0
	for _, x := range w {
		if x == "added" {
			n++
		}
	}
	return n
}

// launchedWith compares what the commander received with the new configuration.
func launchedWith(l []*world.FakeCmd, p sc.ProcSpec) string {
	if len(l) != 1 {
		return fmt.Sprintf("%d live commands after the update", len(l))
	}
	cmd := l[0]
	exe, args := expectedArgs(p)
	if cmd.Exe != exe || !reflect.DeepEqual(cmd.Args, args) {
		return fmt.Sprintf("launched as %q %q, the new configuration says %q %q", cmd.Exe, cmd.Args, exe, args)
	}
	if cmd.Dir != p.WorkingDir {
		return fmt.Sprintf("launched in %q, the new configuration says %q", cmd.Dir, p.WorkingDir)
	}
	eff := map[string]string{} // a key listed twice: the last entry is the one the command sees
	for _, kv := range p.Env {
		k := kv[:strings.IndexByte(kv, '=')]
		eff[k] = kv[len(k)+1:]
	}
	for k, want := range eff {
		if got, ok := lastEnv(cmd.Env, k); !ok || got != want {
			return fmt.Sprintf("launched with %s=%q (present=%v), the new configuration says %q", k, got, ok, want)
		}
	}
	return ""
}

func genSpec(t *rapid.T, name string, earlier []string) sc.ProcSpec {
	p := sc.ProcSpec{Name: name}
	if pbt.Pct(t, 35) {
		p.Entrypoint = []string{pbt.Pick(t, []string{"python", "python3", "node"}), "-m", pbt.Pick(t, []string{"srv", "job"})}
	} else {
		p.Command = pbt.Pick(t, []string{"serve --port 1", "serve --port 2", "work", "serve --tier {{.GV}}"})
	}
	if pbt.Pct(t, 50) {
		p.Env = []string{"MODE=" + pbt.Pick(t, []string{"dev", "prod"})}
		if pbt.Pct(t, 40) {
			p.Env = append(p.Env, "EXTRA="+pbt.Pick(t, []string{"1", "2"}))
		}
	}
	p.WorkingDir = pbt.Pick(t, []string{"", "/tmp", "/"})
	p.Restart = pbt.Pick(t, []string{"", "no", "on_failure", "always"})
	if pbt.Pct(t, 25) {
		p.ReadyProbe = true
	}
	if len(earlier) > 0 && pbt.Pct(t, 40) {
		// process_completed on a long-running dependency keeps the dependent pending: an update
		// may then change or remove an instance that has not launched anything yet
		p.Deps = []sc.Dep{{On: pbt.Pick(t, earlier), Cond: pbt.Pick(t, []string{"process_started", "process_started", "process_completed"})}}
	}
	return p
}

func mutate(t *rapid.T, p sc.ProcSpec, others []string) sc.ProcSpec {
	n := pbt.Range(t, 1, 2)
	for i := 0; i < n; i++ {
		switch pbt.Pick(t, []string{"cmd", "exe", "arg", "envchg", "envadd", "envdel", "envswap", "dir", "probe", "policy", "backoff", "dep", "desc", "ns", "signal"}) {
		case "envswap":
			// the same entries in another order, with one key listed twice: the effective value changes
			env := append([]string(nil), p.Env...)
			if len(env) == 0 {
				env = []string{"MODE=dev"}
			}
			k := env[0][:strings.IndexByte(env[0], '=')]
			dup := false
			for _, kv := range env[1:] {
				if strings.HasPrefix(kv, k+"=") {
					dup = true
				}
			}
			if !dup {
				env = append(env, k+"=other")
			} else {
				for i, j := 0, len(env)-1; i < j; i, j = i+1, j-1 {
					env[i], env[j] = env[j], env[i]
				}
			}
			p.Env = env
		case "cmd":
			if len(p.Entrypoint) == 0 {
				p.Command = p.Command + " --v2"
			}
		case "exe":
			if len(p.Entrypoint) > 0 {
				ep := append([]string(nil), p.Entrypoint...)
				ep[0] = ep[0] + "-next"
				p.Entrypoint = ep
			}
		case "arg":
			if len(p.Entrypoint) > 0 {
				ep := append([]string(nil), p.Entrypoint...)
				ep[len(ep)-1] = ep[len(ep)-1] + "2"
				p.Entrypoint = ep
			}
		case "envchg":
			if len(p.Env) > 0 {
				env := append([]string(nil), p.Env...)
				env[0] = env[0] + "x"
				p.Env = env
			}
		case "envadd":
			p.Env = append(append([]string(nil), p.Env...), fmt.Sprintf("ADDED%d=1", len(p.Env)))
		case "envdel":
			if len(p.Env) > 0 {
				p.Env = append([]string(nil), p.Env[:len(p.Env)-1]...)
			}
		case "dir":
			if p.WorkingDir == "/tmp" {
				p.WorkingDir = "/"
			} else {
				p.WorkingDir = "/tmp"
			}
		case "probe":
			p.ReadyProbe = !p.ReadyProbe
		case "policy":
			if p.Restart == "always" {
				p.Restart = "on_failure"
			} else {
				p.Restart = "always"
			}
		case "backoff":
			p.Backoff += 2
		case "dep":
			if len(p.Deps) > 0 {
				p.Deps = nil
			} else if len(others) > 0 {
				p.Deps = []sc.Dep{{On: pbt.Pick(t, others), Cond: "process_started"}}
			}
		case "desc":
			p.Description = p.Description + "d"
		case "ns":
			p.Namespace = "ns" + fmt.Sprint(len(p.Namespace))
		case "signal":
			p.Signal = 2
		}
	}
	return p
}

func genUpd(t *rapid.T) UpdCase {
	var c UpdCase
	n := pbt.Range(t, 2, 6)
	var names []string
	for i := 0; i < n; i++ {
		name := fmt.Sprintf("p%d", i)
		c.P = append(c.P, genSpec(t, name, names))
		names = append(names, name)
	}
	// one process may be replicated (dependencies on replicated processes are rejected by the loader,
	// so it is the last one, and it is never offered as a dependency target)
	replicated := ""
	if pbt.Pct(t, 30) {
		c.P[n-1].Replicas = pbt.Pick(t, []int{2, 3})
		replicated = c.P[n-1].Name
	}
	cur := c.P
	next := n
	for u := 0; u < pbt.Range(t, 1, 3); u++ {
		var np []sc.ProcSpec
		var kept []string
		removed := map[string]bool{}
		for _, p := range cur {
			switch pbt.Pick(t, []string{"keep", "keep", "keep", "mutate", "mutate", "remove"}) {
			case "keep":
				np = append(np, p)
				if p.Name != replicated {
					kept = append(kept, p.Name)
				}
			case "mutate":
				np = append(np, mutate(t, p, kept))
				if p.Name != replicated {
					kept = append(kept, p.Name)
				}
			case "remove":
				removed[p.Name] = true
			}
		}
		// dependencies on removed processes go away with them
		for i := range np {
			var deps []sc.Dep
			for _, d := range np[i].Deps {
				if !removed[d.On] {
					deps = append(deps, d)
				}
			}
			np[i].Deps = deps
		}
		if pbt.Pct(t, 45) {
			// a new process, in half of the cases depending on processes that stay
			var on []string
			if pbt.Pct(t, 50) {
				on = kept
			}
			np = append(np, genSpec(t, fmt.Sprintf("p%d", next), on))
			next++
			if pbt.Pct(t, 30) {
				np = append(np, genSpec(t, fmt.Sprintf("p%d", next), []string{fmt.Sprintf("p%d", next-1)}))
				next++
			}
		}
		if len(np) == 0 {
			np = append(np, genSpec(t, fmt.Sprintf("p%d", next), nil))
			next++
		}
		// at least one process of the running configuration stays as it is
		same := false
		curM := byName(cur)
		for _, p := range np {
			if o, ok := curM[p.Name]; ok && launchRelevant(o) == launchRelevant(p) && otherFields(o) == otherFields(p) {
				same = true
			}
		}
		if !same {
			anchor := cur[0]
			for _, p := range cur {
				if len(p.Deps) == 0 {
					anchor = p
					break
				}
			}
			if len(anchor.Deps) == 0 {
				replaced := false
				for i := range np {
					if np[i].Name == anchor.Name {
						np[i] = anchor
						replaced = true
					}
				}
				if !replaced {
					np = append([]sc.ProcSpec{anchor}, np...)
				}
				c.Anchored++
			}
		}
		c.Updates = append(c.Updates, np)
		cur = np
	}
	// the project-level variable: mostly constant, sometimes changed by an update (also by one
	// that changes nothing else)
	gv := pbt.Pick(t, []string{"a", "b"})
	c.GVs = []string{gv}
	for range c.Updates {
		if pbt.Pct(t, 30) {
			gv = map[string]string{"a": "b", "b": "a"}[gv]
		}
		c.GVs = append(c.GVs, gv)
	}
	c.Twice = pbt.Pct(t, 35)
	return c
}

func TestC14(t *testing.T) {
	// UpdateProject walks Go maps: the order of removals and updates differs from run to run
	pbt.Run(t, pbt.Spec[UpdCase]{Prop: "C14", Test: "TestC14", Engine: "lifecycle", Gen: genUpd, Check: checkUpd, ReplayRuns: 12})
}

// parkedNow summarises where the goroutines of the system under test are parked right now.
func parkedNow() string {
	var fr []string
	for _, g := range world.SUTGoroutines() {
		fr = append(fr, oracle.TopFrames(g.Body))
	}
	sort.Strings(fr)
	return strings.Join(fr, " | ")
}
