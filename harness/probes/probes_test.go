package probes

import (
	"fmt"
	"math"
	"net"
	"net/http"
	"net/http/httptest"
	"os"
	"strconv"
	"strings"
	"sync"
	"testing"
	"time"

	"github.com/f1bonacc1/process-compose/src/health"
	"github.com/f1bonacc1/process-compose/src/loader"
	"github.com/rs/zerolog"
	"github.com/rs/zerolog/log"
	"pgregory.net/rapid"

	"verif/harness/pbt"
)

func init() { log.Logger = zerolog.Nop() }

// ---------------------------------------------------------------- effective parameters are legal

type ParamCase struct {
	Kind    string `json:"kind"` // exec | http
	Delay   int    `json:"delay"`
	Period  int    `json:"period"`
	Timeout int    `json:"timeout"`
	Success int    `json:"success"`
	Failure int    `json:"failure"`
	Port    string `json:"port"`
	NumPort int    `json:"num_port,omitempty"` // the numeric field is a YAML field of its own
	Host    string `json:"host"`
	Via     string `json:"via"` // direct | loader
}

func legal(p *health.Probe, what string) string {
	if p.InitialDelay < 0 {
		return fmt.Sprintf("%s: initial delay %d < 0", what, p.InitialDelay)
	}
	if p.PeriodSeconds < 1 {
		return fmt.Sprintf("%s: period %d < 1", what, p.PeriodSeconds)
	}
	if p.TimeoutSeconds < 1 {
		return fmt.Sprintf("%s: timeout %d < 1", what, p.TimeoutSeconds)
	}
	if p.SuccessThreshold < 1 {
		return fmt.Sprintf("%s: success threshold %d < 1", what, p.SuccessThreshold)
	}
	if p.FailureThreshold < 1 {
		return fmt.Sprintf("%s: failure threshold %d < 1", what, p.FailureThreshold)
	}
	if p.HttpGet != nil && (p.HttpGet.NumPort < 0 || p.HttpGet.NumPort > 65535) {
		return fmt.Sprintf("%s: port %d outside 1..65535 and not unset", what, p.HttpGet.NumPort)
	}
	return ""
}

func checkParams(c ParamCase) pbt.Verdict {
	var v pbt.Verdict
	mk := func() *health.Probe {
		p := &health.Probe{InitialDelay: c.Delay, PeriodSeconds: c.Period, TimeoutSeconds: c.Timeout, SuccessThreshold: c.Success, FailureThreshold: c.Failure}
		if c.Kind == "exec" {
			p.Exec = &health.ExecProbe{Command: "true"}
		} else {
			p.HttpGet = &health.HttpProbe{Host: c.Host, Port: c.Port, NumPort: c.NumPort, Path: "/"}
		}
		return p
	}
	nonDefault := c.Delay < 0 || c.Period < 1 || c.Timeout < 1 || c.Success < 1 || c.Failure < 1
	if n, err := strconv.Atoi(c.Port); c.Kind == "http" && (err != nil || n < 1 || n > 65535) && c.Port != "" {
		nonDefault = true
	}
	v.NonTrivial = nonDefault
	if c.Via == "direct" {
		p := mk()
		p.ValidateAndSetDefaults()
		if msg := legal(p, "after ValidateAndSetDefaults"); msg != "" {
			v.Violations = append(v.Violations, fmt.Sprintf("%s (configured %+v)", msg, c))
			return v
		}
		if c.Kind == "http" {
			want := 0
			if n, err := strconv.Atoi(c.Port); err == nil && n >= 1 && n <= 65535 {
				want = n
			}
			// with an empty textual port a legal configured num_port may be kept or dropped (the statement
			// only demands legality, checked above)
			keptNum := c.Port == "" && c.NumPort >= 1 && c.NumPort <= 65535 && p.HttpGet.NumPort == c.NumPort
			if p.HttpGet.NumPort != want && !keptNum {
				v.Violations = append(v.Violations, fmt.Sprintf("port %q (num_port %d) gives effective port %d, want %d", c.Port, c.NumPort, p.HttpGet.NumPort, want))
				return v
			}
		}
		// legal values are kept as configured
		if c.Period >= 1 && p.PeriodSeconds != c.Period || c.Timeout >= 1 && p.TimeoutSeconds != c.Timeout || c.Failure >= 1 && p.FailureThreshold != c.Failure || c.Delay >= 0 && p.InitialDelay != c.Delay {
			v.Violations = append(v.Violations, fmt.Sprintf("legal configured values were changed: %+v -> %+v", c, *p))
			return v
		}
		before := *p
		var hb health.HttpProbe
		if p.HttpGet != nil {
			hb = *p.HttpGet
		}
		p.ValidateAndSetDefaults()
		if *p != before || (p.HttpGet != nil && *p.HttpGet != hb) {
			v.Violations = append(v.Violations, fmt.Sprintf("ValidateAndSetDefaults is not idempotent for %+v", c))
		}
		// a prober can be built from it
		if _, err := health.New("x", *mk(), func(bool, bool, string) {}); err != nil && c.Kind == "exec" {
			v.Violations = append(v.Violations, fmt.Sprintf("health.New fails for %+v: %v", c, err))
		}
		return v
	}
	// through the loader
	var y strings.Builder
	y.WriteString("version: \"0.5\"\nprocesses:\n  p:\n    command: 'x'\n")
	for _, key := range []string{"readiness_probe", "liveness_probe"} {
		fmt.Fprintf(&y, "    %s:\n      initial_delay_seconds: %d\n      period_seconds: %d\n      timeout_seconds: %d\n      success_threshold: %d\n      failure_threshold: %d\n", key, c.Delay, c.Period, c.Timeout, c.Success, c.Failure)
		if c.Kind == "exec" {
			y.WriteString("      exec:\n        command: 'true'\n")
		} else {
			fmt.Fprintf(&y, "      http_get:\n        host: '%s'\n        path: '/'\n        port: '%s'\n", c.Host, c.Port)
			if c.NumPort != 0 {
				fmt.Fprintf(&y, "        num_port: %d\n", c.NumPort)
			}
		}
	}
	d, _ := os.MkdirTemp("", "verif-probe-")
	defer os.RemoveAll(d)
	f := d + "/pc.yaml"
	_ = os.WriteFile(f, []byte(y.String()), 0o644)
	lo := &loader.LoaderOptions{FileNames: []string{f}, IsInternalLoader: true}
	lo.DisableDotenv(true)
	prj, err := loader.Load(lo)
	if err != nil {
		v.Violations = append(v.Violations, fmt.Sprintf("load failed: %v\n%s", err, y.String()))
		return v
	}
	p := prj.Processes["p"]
	for what, pr := range map[string]*health.Probe{"readiness probe": p.ReadinessProbe, "liveness probe": p.LivenessProbe} {
		if pr == nil {
			v.Violations = append(v.Violations, what+" lost by the loader")
			return v
		}
		if msg := legal(pr, what+" after load"); msg != "" {
			v.Violations = append(v.Violations, fmt.Sprintf("%s (configured %+v)", msg, c))
			return v
		}
	}
	return v
}

var edgeInts = []int{0, 1, -1, 2, 3, 10, 65535, 65536, -65536, math.MaxInt32, math.MinInt32, 1 << 40, -(1 << 40)}

func genInt(t *rapid.T) int {
	if pbt.Pct(t, 70) {
		return pbt.Pick(t, edgeInts)
	}
	return rapid.IntRange(math.MinInt32, math.MaxInt32).Draw(t, "int")
}

func genParams(t *rapid.T) ParamCase {
	return ParamCase{Kind: pbt.Pick(t, []string{"exec", "http"}), Delay: genInt(t), Period: genInt(t), Timeout: genInt(t), Success: genInt(t), Failure: genInt(t),
		Port: pbt.Pick(t, []string{"", "0", "1", "80", "65535", "65536", "-1", "99999999999999999999", "http", " 80", "8o", "+80", "0x50"}),
		Host: pbt.Pick(t, []string{"", "localhost", " "}), Via: pbt.Pick(t, []string{"direct", "direct", "loader"}),
		NumPort: pbt.Pick(t, []int{0, 0, 0, 8080, 65535, 65536, 70000, -1, -80})}
}

func TestC10Params(t *testing.T) {
	pbt.Run(t, pbt.Spec[ParamCase]{Prop: "C10", Test: "TestC10Params", Engine: "probes", Gen: genParams, Check: checkParams})
}

// ---------------------------------------------------------------- the real prober against a scripted HTTP target

type ProberCase struct {
	Threshold int      `json:"threshold"`
	Answers   []string `json:"answers"` // ok | fail (500) | drop (connection closed)
	// EarlyStop: the probe has an initial delay of one second and is stopped after 200 ms
	// (the process was stopped or restarted before its first probe): nothing may be probed or reported later
	EarlyStop bool `json:"early_stop,omitempty"`
}

type cbRec struct {
	ok, fatal bool
}

func checkProber(c ProberCase) pbt.Verdict {
	var v pbt.Verdict
	var mu sync.Mutex
	served := 0
	srv := httptest.NewServer(http.HandlerFunc(func(w http.ResponseWriter, r *http.Request) {
		mu.Lock()
		i := served
		served++
		mu.Unlock()
		a := "fail"
		if i < len(c.Answers) {
			a = c.Answers[i]
		} else {
			a = "ok"
		}
		switch a {
		case "ok":
			w.WriteHeader(200)
		case "drop":
			// the connection dies without an answer
			if hj, ok := w.(http.Hijacker); ok {
				if conn, _, err := hj.Hijack(); err == nil {
					conn.Close()
					return
				}
			}
			w.WriteHeader(503)
		default:
			w.WriteHeader(500)
		}
	}))
	defer srv.Close()
	host, port, _ := net.SplitHostPort(strings.TrimPrefix(srv.URL, "http://"))
	var cbs []cbRec
	delay := 0
	if c.EarlyStop {
		delay = 1
	}
	pr, err := health.New("t", health.Probe{HttpGet: &health.HttpProbe{Host: host, Port: port, Path: "/", Scheme: "http"}, InitialDelay: delay, PeriodSeconds: 1, TimeoutSeconds: 1, FailureThreshold: c.Threshold},
		func(ok, fatal bool, _ string) {
			mu.Lock()
			cbs = append(cbs, cbRec{ok, fatal})
			mu.Unlock()
		})
	if err != nil {
		v.Violations = append(v.Violations, "health.New: "+err.Error())
		return v
	}
	pr.Start()
	if c.EarlyStop {
		time.Sleep(200 * time.Millisecond)
		pr.Stop()
		time.Sleep(2300 * time.Millisecond)
		pr.Stop() // the process end stops the probes once more
		mu.Lock()
		defer mu.Unlock()
		if served > 0 || len(cbs) > 0 {
			v.Violations = append(v.Violations, fmt.Sprintf("the probe was stopped 200 ms after its start (initial delay 1 s) and still sent %d requests and reported %d outcomes afterwards", served, len(cbs)))
		}
		v.NonTrivial = true
		v.Labels = append(v.Labels, "stopped-before-first-probe")
		return v
	}
	deadline := time.Now().Add(time.Duration(len(c.Answers)+4) * 1300 * time.Millisecond)
	for time.Now().Before(deadline) {
		mu.Lock()
		n := len(cbs)
		mu.Unlock()
		if n >= len(c.Answers) {
			break
		}
		time.Sleep(50 * time.Millisecond)
	}
	pr.Stop()
	mu.Lock()
	defer mu.Unlock()
	if len(cbs) < len(c.Answers) {
		v.Skip = true // too slow: inconclusive, never a violation
		return v
	}
	consec := 0
	reached := false
	for i, a := range c.Answers {
		wantOK := a == "ok"
		if wantOK {
			consec = 0
		} else {
			consec++
		}
		wantFatal := consec == c.Threshold
		if wantFatal {
			reached = true
		}
		if cbs[i].ok != wantOK || cbs[i].fatal != wantFatal {
			v.Violations = append(v.Violations, fmt.Sprintf("probe %d answered %q (consecutive failures %d, threshold %d): callback ok=%v fatal=%v, want ok=%v fatal=%v; answers %v", i, a, consec, c.Threshold, cbs[i].ok, cbs[i].fatal, wantOK, wantFatal, c.Answers))
			return v
		}
	}
	v.NonTrivial = reached
	if reached {
		v.Labels = append(v.Labels, "threshold-reached")
	}
	return v
}

func genProber(t *rapid.T) ProberCase {
	c := ProberCase{Threshold: pbt.Range(t, 1, 3)}
	n := pbt.Range(t, 2, 6)
	for i := 0; i < n; i++ {
		c.Answers = append(c.Answers, pbt.Pick(t, []string{"ok", "fail", "fail"}))
	}
	c.EarlyStop = pbt.Pct(t, 20)
	return c
}

// TestC10Prober runs the cases of one rapid draw sequence concurrently (they are bound by the 1 s probe period).
func TestC10Prober(t *testing.T) {
	pbt.Run(t, pbt.Spec[ProberCase]{Prop: "C10", Test: "TestC10Prober", Engine: "probes", Gen: genProber, Check: checkProber})
}
