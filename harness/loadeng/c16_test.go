package loadeng

import (
	"bytes"
	"encoding/json"
	"fmt"
	"os"
	"strconv"
	"strings"
	"testing"
	"text/template"

	"github.com/f1bonacc1/process-compose/src/health"
	"github.com/f1bonacc1/process-compose/src/loader"
	"github.com/f1bonacc1/process-compose/src/types"
	"pgregory.net/rapid"

	"verif/harness/pbt"
)

type TProbe struct {
	Kind    string `json:"kind"` // exec | http
	Command string `json:"command,omitempty"`
	Host    string `json:"host,omitempty"`
	Path    string `json:"path,omitempty"`
	Port    string `json:"port,omitempty"`
}

type TProc struct {
	Name          string            `json:"name"`
	Replicas      int               `json:"replicas"`       // 0 = not mentioned
	LaunchTimeout *int              `json:"launch_timeout"` // nil = not mentioned
	Namespace     string            `json:"namespace,omitempty"`
	Command       string            `json:"command"`
	WorkingDir    string            `json:"working_dir,omitempty"`
	LogLocation   string            `json:"log_location,omitempty"`
	Description   string            `json:"description,omitempty"`
	Vars          map[string]string `json:"vars,omitempty"`
	Ready         *TProbe           `json:"ready,omitempty"`
	Live          *TProbe           `json:"live,omitempty"`
	// Deferred: "disabled" or "foreground": not started with the project, loaded and rendered like any other
	Deferred string `json:"deferred,omitempty"`
}

type TemplCase struct {
	Vars  map[string]string `json:"vars,omitempty"`
	Procs []TProc           `json:"procs"`
	Loads int               `json:"loads"`
}

func (c TemplCase) yaml() string {
	var b strings.Builder
	b.WriteString("version: \"0.5\"\n")
	if len(c.Vars) > 0 {
		b.WriteString("vars:\n")
		for _, k := range sortedKeys(c.Vars) {
			fmt.Fprintf(&b, "  %s: %s\n", k, varYAML(c.Vars[k]))
		}
	}
	b.WriteString("processes:\n")
	for _, p := range c.Procs {
		fmt.Fprintf(&b, "  %s:\n    command: %s\n", p.Name, yq(p.Command))
		if p.Replicas > 0 {
			fmt.Fprintf(&b, "    replicas: %d\n", p.Replicas)
		}
		if p.LaunchTimeout != nil {
			fmt.Fprintf(&b, "    launch_timeout_seconds: %d\n", *p.LaunchTimeout)
		}
		if p.Namespace != "" {
			fmt.Fprintf(&b, "    namespace: %s\n", p.Namespace)
		}
		switch p.Deferred {
		case "disabled":
			b.WriteString("    disabled: true\n")
		case "foreground":
			b.WriteString("    is_foreground: true\n")
		}
		if p.WorkingDir != "" {
			fmt.Fprintf(&b, "    working_dir: %s\n", yq(p.WorkingDir))
		}
		if p.LogLocation != "" {
			fmt.Fprintf(&b, "    log_location: %s\n", yq(p.LogLocation))
		}
		if p.Description != "" {
			fmt.Fprintf(&b, "    description: %s\n", yq(p.Description))
		}
		if len(p.Vars) > 0 {
			b.WriteString("    vars:\n")
			for _, k := range sortedKeys(p.Vars) {
				fmt.Fprintf(&b, "      %s: %s\n", k, varYAML(p.Vars[k]))
			}
		}
		for _, pr := range []struct {
			key string
			p   *TProbe
		}{{"readiness_probe", p.Ready}, {"liveness_probe", p.Live}} {
			if pr.p == nil {
				continue
			}
			fmt.Fprintf(&b, "    %s:\n      period_seconds: 5\n", pr.key)
			if pr.p.Kind == "exec" {
				fmt.Fprintf(&b, "      exec:\n        command: %s\n", yq(pr.p.Command))
			} else {
				b.WriteString("      http_get:\n")
				if pr.p.Host != "" {
					fmt.Fprintf(&b, "        host: %s\n", yq(pr.p.Host))
				}
				if pr.p.Path != "" {
					fmt.Fprintf(&b, "        path: %s\n", yq(pr.p.Path))
				}
				if pr.p.Port != "" {
					fmt.Fprintf(&b, "        port: %s\n", yq(pr.p.Port))
				}
			}
		}
	}
	return b.String()
}

func sortedKeys(m map[string]string) []string {
	out := make([]string, 0, len(m))
	for k := range m {
		out = append(out, k)
	}
	for i := range out {
		for j := i + 1; j < len(out); j++ {
			if out[j] < out[i] {
				out[i], out[j] = out[j], out[i]
			}
		}
	}
	return out
}

// Variables are kept as strings in the case; "int:N" and "bool:B" stand for the YAML scalars N and
// B (unquoted in the file, int / bool in the reference), anything else is a quoted string.
func varYAML(v string) string {
	if strings.HasPrefix(v, "int:") {
		return v[4:]
	}
	if strings.HasPrefix(v, "bool:") {
		return v[5:]
	}
	return yq(v)
}

func varValue(v string) any {
	if strings.HasPrefix(v, "int:") {
		n, _ := strconv.Atoi(v[4:])
		return n
	}
	if strings.HasPrefix(v, "bool:") {
		return v[5:] == "true"
	}
	return v
}

// refRender: text/template over global vars, overridden by local vars, plus the replica number.
func refRender(s string, global, local map[string]string, replica int) (string, error) {
	if s == "" {
		return "", nil
	}
	m := map[string]any{}
	for k, v := range global {
		m[k] = varValue(v)
	}
	for k, v := range local {
		m[k] = varValue(v)
	}
	m["PC_REPLICA_NUM"] = replica
	tpl, err := template.New("").Parse(s)
	if err != nil {
		return "", err
	}
	var buf bytes.Buffer
	if err := tpl.Execute(&buf, m); err != nil {
		return "", err
	}
	return buf.String(), nil
}

func refReplicaName(name string, replicas, num int) string {
	if replicas <= 1 {
		return name
	}
	w := len(strconv.Itoa(replicas))
	// the width is 1+floor(log10(replicas)): 10 -> 2 digits, 9 -> 1, 100 -> 3
	return fmt.Sprintf("%s-%0*d", name, w, num)
}

func canon(p *types.Project) string {
	b, _ := json.Marshal(struct {
		P types.Processes
		V types.Vars
		E types.Environment
		L int
	}{p.Processes, p.Vars, p.Environment, p.LogLength})
	return string(b)
}

func checkTempl(c TemplCase) pbt.Verdict {
	var v pbt.Verdict
	fail := func(format string, a ...any) pbt.Verdict {
		v.Violations = append(v.Violations, fmt.Sprintf(format, a...)+"\n"+c.yaml())
		return v
	}
	f := dir() + "/templ.yaml"
	if err := os.WriteFile(f, []byte(c.yaml()), 0o644); err != nil {
		v.Skip = true
		return v
	}
	load := func() (*types.Project, error) {
		lo := &loader.LoaderOptions{FileNames: []string{f}, IsInternalLoader: true}
		lo.DisableDotenv(true)
		return loader.Load(lo)
	}
	first, err := load()
	if err != nil {
		return fail("load failed on a valid file: %v", err)
	}
	ref := canon(first)
	for k := 1; k < c.Loads; k++ {
		p, err := load()
		if err != nil {
			return fail("load %d failed: %v", k, err)
		}
		if got := canon(p); got != ref {
			return fail("load %d differs from load 0:\n%s\nvs\n%s", k, firstDiff(got, ref), "")
		}
	}
	want := 0
	for _, p := range c.Procs {
		n := p.Replicas
		if n < 1 {
			n = 1
		}
		want += n
		if n >= 2 {
			usesNum := func(s string) bool { return strings.Contains(s, "PC_REPLICA_NUM") }
			if usesNum(p.WorkingDir) || (p.Ready != nil && (usesNum(p.Ready.Command) || usesNum(p.Ready.Port) || usesNum(p.Ready.Path) || usesNum(p.Ready.Host))) ||
				(p.Live != nil && (usesNum(p.Live.Command) || usesNum(p.Live.Port) || usesNum(p.Live.Path) || usesNum(p.Live.Host))) {
				v.NonTrivial = true
			}
			v.Labels = append(v.Labels, "replicated")
		}
		for r := 0; r < n; r++ {
			name := refReplicaName(p.Name, n, r)
			got, ok := first.Processes[name]
			if !ok {
				var have []string
				for k := range first.Processes {
					have = append(have, k)
				}
				return fail("replica %d of %s should be named %q; loaded names: %v", r, p.Name, name, have)
			}
			if got.Name != p.Name || got.ReplicaName != name || got.ReplicaNum != r || got.Replicas != n {
				return fail("%s: name=%q replica_name=%q replica_num=%d replicas=%d, want %q %q %d %d", name, got.Name, got.ReplicaName, got.ReplicaNum, got.Replicas, p.Name, name, r, n)
			}
			ns := p.Namespace
			if ns == "" {
				ns = "default"
			}
			if got.Namespace != ns {
				return fail("%s: namespace %q, want %q", name, got.Namespace, ns)
			}
			if got.LaunchTimeout < 1 {
				return fail("%s: launch timeout %d is not positive", name, got.LaunchTimeout)
			}
			if p.LaunchTimeout != nil && *p.LaunchTimeout >= 1 && got.LaunchTimeout != *p.LaunchTimeout {
				return fail("%s: launch timeout %d, configured %d", name, got.LaunchTimeout, *p.LaunchTimeout)
			}
			rr := func(s string) string {
				out, err := refRender(s, c.Vars, p.Vars, r)
				if err != nil {
					return "<template error: " + err.Error() + ">"
				}
				return out
			}
			for _, fld := range []struct{ what, got, tmpl string }{
				{"command", got.Command, p.Command}, {"working_dir", got.WorkingDir, p.WorkingDir},
				{"log_location", got.LogLocation, p.LogLocation}, {"description", got.Description, p.Description},
			} {
				if w := rr(fld.tmpl); fld.got != w {
					return fail("%s (replica %d of %d): %s = %q, want %q (template %q)", name, r, n, fld.what, fld.got, w, fld.tmpl)
				}
			}
			if num, ok := got.Vars["PC_REPLICA_NUM"]; ok && fmt.Sprint(num) != strconv.Itoa(r) {
				return fail("%s: vars carry PC_REPLICA_NUM=%v, its replica number is %d", name, num, r)
			}
			for _, pr := range []struct {
				what string
				got  *health.Probe
				want *TProbe
			}{{"readiness probe", got.ReadinessProbe, p.Ready}, {"liveness probe", got.LivenessProbe, p.Live}} {
				if pr.want == nil {
					if pr.got != nil {
						return fail("%s: unexpected %s", name, pr.what)
					}
					continue
				}
				if pr.got == nil {
					return fail("%s: %s missing", name, pr.what)
				}
				if pr.want.Kind == "exec" {
					if pr.got.Exec == nil || pr.got.Exec.Command != rr(pr.want.Command) {
						return fail("%s (replica %d of %d): %s command = %+v, want %q", name, r, n, pr.what, pr.got.Exec, rr(pr.want.Command))
					}
					continue
				}
				h := pr.got.HttpGet
				if h == nil {
					return fail("%s: %s http_get missing", name, pr.what)
				}
				wHost, wPath, wPort := rr(pr.want.Host), rr(pr.want.Path), rr(pr.want.Port)
				if strings.TrimSpace(wHost) == "" {
					wHost = "127.0.0.1"
				}
				if strings.TrimSpace(wPath) == "" {
					wPath = "/"
				}
				wNum, _ := strconv.Atoi(wPort)
				if wPort == "" || wNum < 1 || wNum > 65535 {
					wNum = 0
				}
				if h.Host != wHost || h.Path != wPath || h.Port != wPort || h.NumPort != wNum {
					return fail("%s (replica %d of %d): %s http_get = host %q path %q port %q num %d, want %q %q %q %d", name, r, n, pr.what, h.Host, h.Path, h.Port, h.NumPort, wHost, wPath, wPort, wNum)
				}
			}
		}
	}
	if len(first.Processes) != want {
		return fail("%d processes loaded, want %d", len(first.Processes), want)
	}
	return v
}

func firstDiff(a, b string) string {
	i := 0
	for i < len(a) && i < len(b) && a[i] == b[i] {
		i++
	}
	lo := i - 60
	if lo < 0 {
		lo = 0
	}
	hi := func(s string) int {
		if i+60 < len(s) {
			return i + 60
		}
		return len(s)
	}
	return fmt.Sprintf("...%s\n...%s", a[lo:hi(a)], b[lo:hi(b)])
}

// L2 and L3 are never global: a process that does not define them renders "<no value>" / the
// empty branch whatever its neighbours define.
var tmplPieces = []string{"plain", "r{{.PC_REPLICA_NUM}}", "{{.G1}}", "{{.L1}}-{{.PC_REPLICA_NUM}}", "{{.G2}}/{{.L1}}", "x {{.PC_REPLICA_NUM}} y {{.PC_REPLICA_NUM}}", "/d/{{.G1}}/{{.PC_REPLICA_NUM}}",
	"{{.L2}}", "w{{if .L3}} --debug{{end}}", "{{.L2}}-{{.G1}}-{{.PC_REPLICA_NUM}}",
	// typed variables: an integer keeps its decimal form and compares with integer literals, a boolean branches
	"--max {{.N1}}", "{{if eq .N2 2}}two{{else}}other{{end}}-{{.N2}}", "{{if .B1}}on{{else}}off{{end}}"}

func genTempl(t *rapid.T) TemplCase {
	c := TemplCase{Vars: map[string]string{}, Loads: 6}
	for _, g := range [][2]string{{"G1", "gv"}, {"G2", "7"}, {"L1", "global-l1"}} {
		if pbt.Pct(t, 75) {
			c.Vars[g[0]] = g[1]
		}
	}
	c.Vars["N2"] = "int:5" // always defined: `eq` on a missing key is a template error, not a rendering
	if pbt.Pct(t, 50) {
		c.Vars["N1"] = "int:123456789"
	}
	n := pbt.Range(t, 1, 5)
	for i := 0; i < n; i++ {
		p := TProc{Name: fmt.Sprintf("svc%d", i), Replicas: pbt.Pick(t, []int{0, 1, 2, 2, 3, 4, 9, 10, 11, 99, 100}), Command: "run " + pbt.Pick(t, tmplPieces)}
		if pbt.Pct(t, 35) {
			if p.Vars == nil {
				p.Vars = map[string]string{}
			}
			p.Vars["N1"] = pbt.Pick(t, []string{"int:10485760", "int:7", "int:1000000", "int:2147483648"})
		}
		if pbt.Pct(t, 35) {
			if p.Vars == nil {
				p.Vars = map[string]string{}
			}
			p.Vars["N2"] = pbt.Pick(t, []string{"int:2", "int:3"})
		}
		if pbt.Pct(t, 25) {
			if p.Vars == nil {
				p.Vars = map[string]string{}
			}
			p.Vars["B1"] = pbt.Pick(t, []string{"bool:true", "bool:false"})
		}
		for _, l := range []string{"L1", "L2", "L3"} {
			if pbt.Pct(t, 40) {
				if p.Vars == nil {
					p.Vars = map[string]string{}
				}
				p.Vars[l] = pbt.Pick(t, []string{"lv", "local " + strconv.Itoa(i)})
			}
		}
		if pbt.Pct(t, 40) {
			lt := pbt.Pick(t, []int{0, -3, 1, 7})
			p.LaunchTimeout = &lt
		}
		if pbt.Pct(t, 30) {
			p.Namespace = "ns" + strconv.Itoa(pbt.Range(t, 1, 2))
		}
		if pbt.Pct(t, 20) {
			p.Deferred = pbt.Pick(t, []string{"disabled", "foreground"})
		}
		if pbt.Pct(t, 60) {
			p.WorkingDir = pbt.Pick(t, tmplPieces)
		}
		if pbt.Pct(t, 40) {
			p.LogLocation = "/tmp/verif-nolog/" + pbt.Pick(t, tmplPieces)
		}
		if pbt.Pct(t, 50) {
			p.Description = pbt.Pick(t, tmplPieces)
		}
		gp := func() *TProbe {
			if pbt.Pct(t, 50) {
				return &TProbe{Kind: "exec", Command: "check " + pbt.Pick(t, tmplPieces)}
			}
			pr := &TProbe{Kind: "http", Host: pbt.Pick(t, []string{"", "localhost", "h{{.PC_REPLICA_NUM}}.local"}),
				Path: pbt.Pick(t, []string{"", "/health", "/r/{{.PC_REPLICA_NUM}}"}), Port: pbt.Pick(t, []string{"", "8080", "80{{.PC_REPLICA_NUM}}", "{{.G2}}00{{.PC_REPLICA_NUM}}", "0", "65535", "65536", "70000", "abc"})}
			if pr.Host == "" && pr.Path == "" && pr.Port == "" {
				pr.Path = "/health" // an empty http_get block is no probe at all
			}
			return pr
		}
		if pbt.Pct(t, 55) {
			p.Ready = gp()
		}
		if pbt.Pct(t, 35) {
			p.Live = gp()
		}
		c.Procs = append(c.Procs, p)
	}
	// a process that is named like a replica of another one (both replicated, so all names stay
	// distinct): svc0 x 3 and svc0-0 x 2 load as svc0-0, svc0-1, svc0-2, svc0-0-0, svc0-0-1
	if c.Procs[0].Replicas >= 2 && pbt.Pct(t, 25) {
		c.Procs = append(c.Procs, TProc{Name: c.Procs[0].Name + "-0", Replicas: pbt.Pick(t, []int{2, 3}), Command: "run " + pbt.Pick(t, tmplPieces)})
	}
	return c
}

func TestC16Load(t *testing.T) {
	pbt.Run(t, pbt.Spec[TemplCase]{Prop: "C16", Test: "TestC16Load", Engine: "loadeng", Gen: genTempl, Check: checkTempl,
		Sample: func(c TemplCase) any { return strings.Split(c.yaml(), "\n") }})
}
