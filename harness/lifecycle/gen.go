package lifecycle

import (
	"errors"
	"fmt"
	"sort"
	"strings"

	"pgregory.net/rapid"

	"verif/harness/oracle"
	"verif/harness/sc"
)

// Profile tunes the shared scenario generator for one property.
type Profile struct {
	MinProcs, MaxProcs int
	EdgeProb           int      // percent, per ordered pair
	Conds              []string // condition types to draw from
	Policies           []string
	MaxRestartsMax     int
	BackoffMax         int
	ExitOnFlags        bool
	StartErr           bool
	BadDir             bool
	Probes             bool
	ReadyLines         bool
	SignalBeh          []string // behaviours on signal to draw from ("" dies, hold, ignore)
	Disabled           bool
	Ordered            bool
	OrderedPct         int // percent of the projects that shut down in reverse dependency order
	MaxSteps           int
	APIOps             []string // api ops enabled in the step phase
	Holds              []string // yield points that may be armed (before Run starts)
	HoldOps            []string // requests fired while the hold is engaged
	BackoffStops       bool     // exits of restarting processes may be followed by a stop inside the back-off
	ShutdownStep       bool     // one shutdown somewhere on the tape
	UnknownNames       bool
	Codes              []int
	NoFinishExits      bool
	ShutdownCfg        bool // some processes carry a shutdown.command or a shutdown.timeout_seconds
	ReplicatedLeaves   bool // processes nobody depends on may have 2-3 replicas
	DaemonPct          int  // percent of the processes that are daemons with a shutdown.command (which may fail)
	// RestartPendingOK admits restart requests on an instance that is still waiting for its
	// dependencies. The recorded finding C09-restart-while-pending is about the *reported status*
	// of the two instances; a judge that only reads the event log (C08) need not avoid the class.
	RestartPendingOK bool
	// PendingChurn: a request on a process that waits for its dependencies is followed, with some
	// probability, by the end of what it waits for and by further requests on the same process.
	PendingChurn bool
}

// OnExclude is told when the generator avoids the class of a known finding by construction.
var OnExclude func(id string)

var allConds = []string{"process_completed", "process_completed_successfully", "process_healthy", "process_started", "process_log_ready"}

func names(n int) []string {
	out := make([]string, n)
	for i := range out {
		out[i] = fmt.Sprintf("p%d", i)
	}
	return out
}

// rapid's integer generators are biased towards small values (IntRange(0,99) < 8 holds in
// 40% of the draws), which is right for sizes but wrong for probabilities and for choices
// among equals. Fair bits are built from Bool draws (50/50); they shrink towards zero.
func ubits(t *rapid.T, k int) int {
	v := 0
	for i := 0; i < k; i++ {
		v <<= 1
		if rapid.Bool().Draw(t, "bit") {
			v |= 1
		}
	}
	return v
}

// pct is true with probability p percent; it shrinks towards false.
func pct(t *rapid.T, p int, label string) bool {
	if p <= 0 {
		return false
	}
	if p >= 100 {
		return true
	}
	return ubits(t, 7) >= 128-(p*128+50)/100
}

// pick chooses uniformly; it shrinks towards the first element.
func pick[T any](t *rapid.T, xs []T, label string) T {
	if len(xs) == 1 {
		return xs[0]
	}
	k := 1
	for (1 << k) < len(xs) {
		k++
	}
	return xs[ubits(t, k+3)%len(xs)]
}

// irange is a uniform integer in [lo,hi]; it shrinks towards lo.
func irange(t *rapid.T, lo, hi int, label string) int {
	if hi <= lo {
		return lo
	}
	n := hi - lo + 1
	k := 1
	for (1 << k) < n {
		k++
	}
	return lo + ubits(t, k+3)%n
}

// GenProject draws the static part of a scenario.
func GenProject(t *rapid.T, pr Profile) *sc.Scenario {
	n := irange(t, pr.MinProcs, pr.MaxProcs, "nprocs")
	nm := names(n)
	s := &sc.Scenario{Ordered: pr.Ordered || pct(t, pr.OrderedPct, "ordered")}
	codes := pr.Codes
	if len(codes) == 0 {
		codes = []int{0, 0, 1, 2, 130}
	}
	for i := 0; i < n; i++ {
		p := sc.ProcSpec{Name: nm[i]}
		if len(pr.Policies) > 0 {
			p.Restart = pick(t, pr.Policies, "policy")
			if p.Restart == "always" || p.Restart == "on_failure" {
				if pr.MaxRestartsMax > 0 {
					p.MaxRestarts = irange(t, 0, pr.MaxRestartsMax, "maxr")
				}
				if pr.BackoffMax > 0 {
					p.Backoff = irange(t, 0, pr.BackoffMax, "backoff")
					if pct(t, 12, "negative-backoff") {
						p.Backoff = -irange(t, 1, 3, "negbackoff") // nothing validates the field: the minimum of one second applies
					}
				}
				if p.Restart == "always" && p.MaxRestarts == 0 {
					p.MaxRestarts = irange(t, 0, 3, "maxr2") // mostly bounded, sometimes endless
				}
			}
		}
		if pr.ExitOnFlags {
			if pct(t, 15, "eoe") {
				p.ExitOnEnd = true
			}
			if pct(t, 15, "eos") {
				p.ExitOnSkipped = true
			}
		}
		if pr.Disabled && pct(t, 10, "disabled") {
			p.Disabled = true
		}
		if pr.BadDir && pct(t, 8, "baddir") {
			p.BadDir = true
		}
		if pct(t, pr.DaemonPct, "daemon") {
			// the launcher exits, the daemon counts as Launched until its shutdown.command has run
			p.Daemon = true
			p.Restart = "no"
			p.ShutdownCmd = pick(t, []string{"true", "false"}, "daemonstopcmd")
		} else if pr.ShutdownCfg {
			if pct(t, 15, "shutcmd") {
				p.ShutdownCmd = "true"
				if pct(t, 30, "shutcmd+timeout") {
					p.ShutdownTimeout = 1 // the time limit of the command, not a kill timer
				}
			} else if pct(t, 6, "shuttimeout") {
				p.ShutdownTimeout = 1
			}
		}
		nb := 1
		if p.Restart == "always" || p.Restart == "on_failure" {
			nb = irange(t, 1, 3, "nbeh")
		}
		for k := 0; k < nb; k++ {
			b := sc.LaunchBeh{}
			if pr.StartErr && pct(t, 8, "starterr") {
				b.StartErr = true
			}
			if len(pr.SignalBeh) > 0 {
				b.OnSignal = pick(t, pr.SignalBeh, "onsig")
			}
			p.Beh = append(p.Beh, b)
		}
		// dependencies on earlier processes only (acyclic by construction)
		for j := 0; j < i; j++ {
			if !pct(t, pr.EdgeProb, "edge") {
				continue
			}
			c := pick(t, pr.Conds, "cond")
			d := &s.Procs[j]
			switch c {
			case "process_healthy":
				if !pr.Probes || d.ReadyLine != "" {
					c = "process_completed"
				} else {
					d.ReadyProbe = true
				}
			case "process_log_ready":
				if !pr.ReadyLines || d.ReadyProbe {
					c = "process_completed"
				} else {
					d.ReadyLine = "READY-" + d.Name
				}
			}
			p.Deps = append(p.Deps, sc.Dep{On: nm[j], Cond: c})
		}
		s.Procs = append(s.Procs, p)
	}
	if pr.ReplicatedLeaves {
		// (dependencies on replicated processes are rejected by the loader: leaves only)
		target := map[string]bool{}
		for _, p := range s.Procs {
			for _, d := range p.Deps {
				target[d.On] = true
			}
		}
		for i := range s.Procs {
			if !target[s.Procs[i].Name] && len(s.Procs[i].Deps) > 0 && pct(t, 30, "replicated-leaf") {
				s.Procs[i].Replicas = irange(t, 2, 3, "leafreplicas")
			}
		}
	}
	nf := irange(t, 1, 3, "nfin")
	for i := 0; i < nf; i++ {
		s.FinishCodes = append(s.FinishCodes, pick(t, codes, "fincode"))
	}
	return s
}

// Options lists the steps applicable now, in a deterministic order.
func Options(e *sc.Exec, pr Profile, codes []int) []sc.Step {
	var out []sc.Step
	live := e.W.LiveCmds("")
	sort.Slice(live, func(i, j int) bool { return live[i].Replica < live[j].Replica })
	for _, c := range live {
		if c.PendingKill() {
			out = append(out, sc.Step{Op: sc.OpKillRelease, Proc: c.Replica})
			continue
		}
		for _, code := range codes {
			out = append(out, sc.Step{Op: sc.OpExit, Proc: c.Replica, Code: code})
		}
		sp := e.Sc.Spec(c.Name)
		if sp == nil {
			continue
		}
		if sp.ReadyLine != "" {
			out = append(out, sc.Step{Op: sc.OpLine, Proc: c.Replica, Stream: 1, Text: "booting " + sp.Name})
			out = append(out, sc.Step{Op: sc.OpLine, Proc: c.Replica, Stream: 1, Text: "x " + sp.ReadyLine + " y"})
			out = append(out, sc.Step{Op: sc.OpLine, Proc: c.Replica, Stream: 2, Text: sp.ReadyLine})
		}
		if sp.ReadyProbe {
			out = append(out, sc.Step{Op: sc.OpProbe, Proc: c.Replica, OK: true})
			out = append(out, sc.Step{Op: sc.OpProbe, Proc: c.Replica, OK: false})
		}
	}
	return out
}

func uniqCodes(c []int) []int {
	seen := map[int]bool{}
	var out []int
	for _, v := range c {
		if !seen[v] {
			seen[v] = true
			out = append(out, v)
		}
	}
	return out
}

// APIStep draws one API operation.
func APIStep(t *rapid.T, e *sc.Exec, pr Profile) (sc.Step, bool) {
	return apiStepOn(t, e, pr, "")
}

// apiStepOn: as APIStep, on the given process when one is named (same exclusions).
func apiStepOn(t *rapid.T, e *sc.Exec, pr Profile, forced string) (sc.Step, bool) {
	if len(pr.APIOps) == 0 {
		return sc.Step{}, false
	}
	op := pick(t, pr.APIOps, "apiop")
	var nm []string
	for _, p := range e.Sc.Procs {
		nm = append(nm, p.Name)
	}
	if pr.UnknownNames {
		nm = append(nm, "ghost")
	}
	if forced != "" {
		nm = []string{forced}
		if op == sc.OpShutdown || op == sc.OpStopMany {
			op = sc.OpStart
		}
	}
	switch op {
	case sc.OpShutdown:
		if e.ShutdownSeen {
			return sc.Step{}, false
		}
		return sc.Step{Op: sc.OpShutdown}, true
	case sc.OpStopMany:
		k := irange(t, 1, 2, "nstop")
		st := sc.Step{Op: sc.OpStopMany}
		for i := 0; i < k; i++ {
			st.Names = append(st.Names, pick(t, nm, "stopname"))
		}
		return st, true
	default:
		proc := pick(t, nm, "apiproc")
		if (op == sc.OpStart || op == sc.OpRestart) && e.OutstandingOn(proc, sc.OpStart, sc.OpRestart) > 0 {
			// known finding C08-concurrent-start: overlapping start/restart requests on one process
			if OnExclude != nil {
				OnExclude("C08-concurrent-start")
			}
			return sc.Step{}, false
		}
		if (op == sc.OpStart || op == sc.OpRestart) && !e.RunReturned() && shutdownBegan(e) {
			// same root cause: the request is served when the shutdown ends, i.e. exactly while Run() returns
			if OnExclude != nil {
				OnExclude("C20-restart-last-process")
			}
			return sc.Step{}, false
		}
		if sp := e.Sc.Spec(proc); op == sc.OpRestart && !e.RunReturned() && len(e.W.LiveCmds(proc)) > 0 &&
			(len(e.W.LiveCmds("")) == len(e.W.LiveCmds(proc)) || (sp != nil && (sp.ExitOnEnd || sp.Restart == "exit_on_failure"))) {
			// known finding C20-restart-last-process: restarting the only live process lets Run()'s
			// WaitGroup reach zero while the restart adds to it again (runtime panic)
			if OnExclude != nil {
				OnExclude("C20-restart-last-process")
			}
			return sc.Step{}, false
		}
		if op == sc.OpRestart && pendingInstance(e, proc) && !pr.RestartPendingOK {
			// known finding C09-restart-while-pending: the stopped and the new instance share one status
			if OnExclude != nil {
				OnExclude("C09-restart-while-pending")
			}
			return sc.Step{}, false
		}
		return sc.Step{Op: op, Proc: proc}, true
	}
}

// RunGenerated draws a project, then interleaves drawn steps with execution, and
// finally drives the project to completion. The concrete steps are recorded into the
// scenario so that the returned history replays without the generator.
func RunGenerated(t *rapid.T, pr Profile) *sc.History {
	s := GenProject(t, pr)
	return RunSteps(t, s, pr)
}

func RunSteps(t *rapid.T, s *sc.Scenario, pr Profile) *sc.History {
	var hold *sc.Step
	if len(pr.Holds) > 0 && pct(t, 65, "prehold?") {
		h := sc.Step{Op: sc.OpHold, Point: pick(t, pr.Holds, "holdpoint"), Proc: pick(t, s.Procs, "holdproc").Name}
		if h.Point == "run.prepare" {
			h.Proc = "" // a point of the project, before any process is registered
		}
		s.PreHolds = append(s.PreHolds, h)
		hold = &h
	}
	e, err := sc.Begin(s)
	if errors.Is(err, sc.ErrLeftover) {
		return e.Finish()
	}
	if err != nil {
		t.Fatalf("generator produced a project the loader rejects: %v\n%s", err, sc.YAML(s.Procs, false, 0))
	}
	codes := uniqCodes(pr.Codes)
	if len(codes) == 0 {
		codes = []int{0, 1, 2}
	}
	do := func(st sc.Step) {
		s.Steps = append(s.Steps, st)
		e.Do(st)
	}
	n := irange(t, 0, pr.MaxSteps, "nsteps")
	shutdownAt := -1
	if pr.ShutdownStep {
		shutdownAt = irange(t, 0, n, "shutdownAt")
	}
	holdFired := false
	focus := ""
	for i := 0; i <= n; i++ {
		// the window is open: a goroutine is parked at the yield point
		if hold != nil && !holdFired && e.W.HoldEngaged(hold.Point, hold.Proc) && len(pr.HoldOps) > 0 && pct(t, 75, "fire-in-hold?") {
			holdFired = true
			op := pick(t, pr.HoldOps, "holdop")
			if op == sc.OpShutdown {
				if !e.ShutdownSeen {
					do(sc.Step{Op: sc.OpShutdown})
				}
			} else {
				do(sc.Step{Op: op, Proc: hold.Proc})
			}
			do(sc.Step{Op: sc.OpRelease, Point: hold.Point, Proc: hold.Proc})
			continue
		}
		if i == shutdownAt && !e.ShutdownSeen {
			do(sc.Step{Op: sc.OpShutdown})
		}
		if i == n {
			break
		}
		var st sc.Step
		ok := false
		if pr.PendingChurn && len(pr.APIOps) > 0 {
			if focus == "" {
				var cands []string
				for _, sp := range s.Procs {
					if pendingInstance(e, sp.Name) {
						cands = append(cands, sp.Name)
					}
				}
				if len(cands) > 0 && pct(t, 30, "pending-churn?") {
					focus = pick(t, cands, "focus")
					if st, ok = apiStepOn(t, e, pr, focus); ok {
						do(st)
						continue
					}
				}
			} else if pct(t, 60, "follow-focus?") {
				if pendingInstance(e, focus) {
					// let something the focus waits for end
					var ends []sc.Step
					if sp := s.Spec(focus); sp != nil {
						for _, o := range Options(e, pr, codes) {
							for _, d := range sp.Deps {
								if o.Op == sc.OpExit && (o.Proc == d.On || strings.HasPrefix(o.Proc, d.On+"-")) {
									ends = append(ends, o)
								}
							}
						}
					}
					if len(ends) > 0 {
						do(ends[irange(t, 0, len(ends)-1, "dep-end")])
						continue
					}
				} else if st, ok = apiStepOn(t, e, pr, focus); ok {
					do(st)
					continue
				}
			}
			ok = false
		}
		if len(pr.APIOps) > 0 && pct(t, 35, "api?") {
			st, ok = APIStep(t, e, pr)
		}
		if !ok {
			opts := Options(e, pr, codes)
			if len(opts) == 0 {
				if len(pr.APIOps) > 0 {
					st, ok = APIStep(t, e, pr)
				}
				if !ok {
					break
				}
			} else {
				st = opts[irange(t, 0, len(opts)-1, "opt")]
			}
		}
		// an exit of a restarting process, followed by a stop request inside its back-off
		if sp := s.Spec(st.Proc); pr.BackoffStops && st.Op == sc.OpExit && sp != nil && (sp.Restart == "always" || sp.Restart == "on_failure") && pct(t, 30, "stop-in-backoff?") {
			st.NoSettle = true
			do(st)
			do(sc.Step{Op: sc.OpAwaitState, Proc: st.Proc, Text: "Restarting", N: 3, NoSettle: true})
			if pct(t, 30, "shutdown-in-backoff?") && !e.ShutdownSeen {
				do(sc.Step{Op: sc.OpShutdown})
			} else {
				do(sc.Step{Op: sc.OpStop, Proc: st.Proc})
			}
			continue
		}
		do(st)
	}
	return e.Finish()
}

// pendingInstance: the process has an instance that has not launched anything yet
// (waiting for its dependencies, possibly already stopped there).
func pendingInstance(e *sc.Exec, proc string) bool {
	sp := e.Sc.Spec(proc)
	if sp == nil {
		return false
	}
	if len(e.W.LiveCmds(proc)) > 0 {
		return false
	}
	evs := e.W.Events()
	return oracle.PendingInstanceAt(evs, proc, len(evs), !sp.Disabled && !sp.Foreground)
}

func shutdownBegan(e *sc.Exec) bool {
	if e.ShutdownSeen {
		return true
	}
	for _, ev := range e.W.Events() {
		if ev.Kind == "mark" && ev.Text == "shutdown-begin" {
			return true
		}
	}
	return false
}
