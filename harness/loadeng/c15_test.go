package loadeng

import (
	"fmt"
	"os"
	"path/filepath"
	"sort"
	"strconv"
	"strings"
	"testing"

	"github.com/f1bonacc1/process-compose/src/loader"
	"github.com/f1bonacc1/process-compose/src/types"
	"pgregory.net/rapid"

	"verif/harness/pbt"
)

// ---------------------------------------------------------------- case format

// PFrag is what one file says about one process: only the options it mentions.
type PFrag struct {
	Name    string            `json:"name"`
	Scalars map[string]string `json:"scalars,omitempty"` // option -> value (strings unquoted)
	Env     []string          `json:"env,omitempty"`
	Deps    map[string]string `json:"deps,omitempty"` // dependency -> condition
}

type FileFrag struct {
	Dir       string   `json:"dir"` // directory (relative to the case root) the file lives in
	LogLength int      `json:"log_length,omitempty"`
	GlobalEnv []string `json:"global_env,omitempty"`
	LogLevel  string   `json:"log_level,omitempty"`
	Procs     []PFrag  `json:"procs"`
}

type MergeCase struct {
	Files []FileFrag `json:"files"`
}

// scalar option catalogue: yaml path, kind
type opt struct {
	path string
	kind string // s string, i int, b bool(true only), e enum restart
	get  func(p *types.ProcessConfig) string
}

var opts = []opt{
	{"command", "s", func(p *types.ProcessConfig) string { return p.Command }},
	{"working_dir", "s", func(p *types.ProcessConfig) string { return p.WorkingDir }},
	{"namespace", "s", func(p *types.ProcessConfig) string { return p.Namespace }},
	{"description", "s", func(p *types.ProcessConfig) string { return p.Description }},
	{"log_location", "s", func(p *types.ProcessConfig) string { return p.LogLocation }},
	{"ready_log_line", "s", func(p *types.ProcessConfig) string { return p.ReadyLogLine }},
	{"availability.restart", "e", func(p *types.ProcessConfig) string { return p.RestartPolicy.Restart }},
	{"availability.backoff_seconds", "i", func(p *types.ProcessConfig) string { return strconv.Itoa(p.RestartPolicy.BackoffSeconds) }},
	{"availability.max_restarts", "i", func(p *types.ProcessConfig) string { return strconv.Itoa(p.RestartPolicy.MaxRestarts) }},
	{"availability.exit_on_end", "b", func(p *types.ProcessConfig) string { return strconv.FormatBool(p.RestartPolicy.ExitOnEnd) }},
	{"shutdown.command", "s", func(p *types.ProcessConfig) string { return p.ShutDownParams.ShutDownCommand }},
	{"shutdown.signal", "i", func(p *types.ProcessConfig) string { return strconv.Itoa(p.ShutDownParams.Signal) }},
	{"shutdown.timeout_seconds", "i", func(p *types.ProcessConfig) string { return strconv.Itoa(p.ShutDownParams.ShutDownTimeout) }},
	{"launch_timeout_seconds", "i", func(p *types.ProcessConfig) string { return strconv.Itoa(p.LaunchTimeout) }},
	{"is_daemon", "b", func(p *types.ProcessConfig) string { return strconv.FormatBool(p.IsDaemon) }},
	{"disabled", "b", func(p *types.ProcessConfig) string { return strconv.FormatBool(p.Disabled) }},
	{"disable_ansi_colors", "b", func(p *types.ProcessConfig) string { return strconv.FormatBool(p.DisableAnsiColors) }},
}

func defaultOf(path string) string {
	switch path {
	case "namespace":
		return "default"
	case "launch_timeout_seconds":
		return "5"
	}
	for _, o := range opts {
		if o.path == path {
			switch o.kind {
			case "i":
				return "0"
			case "b":
				return "false"
			}
		}
	}
	return ""
}

func yq(s string) string { return "'" + strings.ReplaceAll(s, "'", "''") + "'" }

func (f FileFrag) yaml(extends string) string {
	var b strings.Builder
	b.WriteString("version: \"0.5\"\n")
	if extends != "" {
		fmt.Fprintf(&b, "extends: %s\n", yq(extends))
	}
	if f.LogLength > 0 {
		fmt.Fprintf(&b, "log_length: %d\n", f.LogLength)
	}
	if f.LogLevel != "" {
		fmt.Fprintf(&b, "log_level: %s\n", f.LogLevel)
	}
	if len(f.GlobalEnv) > 0 {
		b.WriteString("environment:\n")
		for _, e := range f.GlobalEnv {
			fmt.Fprintf(&b, "  - %s\n", yq(e))
		}
	}
	b.WriteString("processes:\n")
	for _, p := range f.Procs {
		fmt.Fprintf(&b, "  %s:\n", p.Name)
		groups := map[string][]string{}
		var top []string
		keys := make([]string, 0, len(p.Scalars))
		for k := range p.Scalars {
			keys = append(keys, k)
		}
		sort.Strings(keys)
		for _, k := range keys {
			val := p.Scalars[k]
			kind := "s"
			for _, o := range opts {
				if o.path == k {
					kind = o.kind
				}
			}
			if kind == "s" || kind == "e" {
				val = yq(val)
			}
			if i := strings.IndexByte(k, '.'); i > 0 {
				groups[k[:i]] = append(groups[k[:i]], fmt.Sprintf("      %s: %s\n", k[i+1:], val))
			} else {
				top = append(top, fmt.Sprintf("    %s: %s\n", k, val))
			}
		}
		for _, l := range top {
			b.WriteString(l)
		}
		gk := make([]string, 0, len(groups))
		for g := range groups {
			gk = append(gk, g)
		}
		sort.Strings(gk)
		for _, g := range gk {
			fmt.Fprintf(&b, "    %s:\n", g)
			for _, l := range groups[g] {
				b.WriteString(l)
			}
		}
		if len(p.Env) > 0 {
			b.WriteString("    environment:\n")
			for _, e := range p.Env {
				fmt.Fprintf(&b, "      - %s\n", yq(e))
			}
		}
		if len(p.Deps) > 0 {
			b.WriteString("    depends_on:\n")
			dk := make([]string, 0, len(p.Deps))
			for d := range p.Deps {
				dk = append(dk, d)
			}
			sort.Strings(dk)
			for _, d := range dk {
				fmt.Fprintf(&b, "      %s:\n        condition: %s\n", d, p.Deps[d])
			}
		}
		if len(p.Scalars) == 0 && len(p.Env) == 0 && len(p.Deps) == 0 {
			b.WriteString("    description: ''\n")
		}
	}
	return b.String()
}

// ---------------------------------------------------------------- reference merge (from merge.md)

type refProc struct {
	scalars map[string]string
	env     map[string]string
	envSeen []string
	deps    map[string]string
}

type refProject struct {
	procs     map[string]*refProc
	logLength int
	globalEnv map[string]string
}

func envKV(e string) (string, string, bool) {
	i := strings.IndexByte(e, '=')
	if i < 0 {
		return e, "", false
	}
	return e[:i], e[i+1:], true
}

// refMerge merges the files in order. wdDirs[i] != "" applies the extends rule to file i:
// empty / relative working directories of its processes are resolved against that directory.
func refMerge(files []FileFrag, wdDirs []string) *refProject {
	r := &refProject{procs: map[string]*refProc{}, globalEnv: map[string]string{}}
	for i, f := range files {
		if f.LogLength > 0 {
			r.logLength = f.LogLength
		}
		for _, e := range f.GlobalEnv {
			if k, val, ok := envKV(e); ok {
				r.globalEnv[k] = val
			}
		}
		for _, p := range f.Procs {
			rp := r.procs[p.Name]
			if rp == nil {
				rp = &refProc{scalars: map[string]string{}, env: map[string]string{}, deps: map[string]string{}}
				r.procs[p.Name] = rp
			}
			sc := map[string]string{}
			for k, val := range p.Scalars {
				sc[k] = val
			}
			if wdDirs != nil && wdDirs[i] != "" {
				wd := sc["working_dir"]
				switch {
				case wd == "":
					sc["working_dir"] = wdDirs[i]
				case !filepath.IsAbs(wd):
					sc["working_dir"] = filepath.Join(wdDirs[i], wd)
				}
			}
			for k, val := range sc {
				rp.scalars[k] = val
			}
			for _, e := range p.Env {
				if k, val, ok := envKV(e); ok {
					rp.env[k] = val
				}
			}
			for d, c := range p.Deps {
				rp.deps[d] = c
			}
		}
	}
	if r.logLength == 0 {
		r.logLength = 1000
	}
	return r
}

func envMap(env []string) (map[string]string, string) {
	m := map[string]string{}
	for _, e := range env {
		k, v, ok := envKV(e)
		if !ok {
			return m, "entry without '=': " + e
		}
		m[k] = v
	}
	return m, ""
}

func compareProject(got *types.Project, want *refProject, what string) string {
	if got.LogLength != want.logLength {
		return fmt.Sprintf("%s: log_length = %d, want %d", what, got.LogLength, want.logLength)
	}
	ge, bad := envMap(got.Environment)
	if bad != "" {
		return what + ": global environment " + bad
	}
	if d := diffMaps(ge, want.globalEnv); d != "" {
		return what + ": global environment " + d
	}
	if len(got.Processes) != len(want.procs) {
		var names []string
		for n := range got.Processes {
			names = append(names, n)
		}
		sort.Strings(names)
		return fmt.Sprintf("%s: processes %v, want %d processes", what, names, len(want.procs))
	}
	for name, rp := range want.procs {
		p, ok := got.Processes[name]
		if !ok {
			return fmt.Sprintf("%s: process %s is missing", what, name)
		}
		for _, o := range opts {
			w, mentioned := rp.scalars[o.path]
			if !mentioned {
				w = defaultOf(o.path)
			}
			if g := o.get(&p); g != w {
				return fmt.Sprintf("%s: process %s option %s = %q, want %q (mentioned=%v)", what, name, o.path, g, w, mentioned)
			}
		}
		pe, bad := envMap(p.Environment)
		if bad != "" {
			return fmt.Sprintf("%s: process %s environment %s", what, name, bad)
		}
		if d := diffMaps(pe, rp.env); d != "" {
			return fmt.Sprintf("%s: process %s environment %s", what, name, d)
		}
		gd := map[string]string{}
		for d, c := range p.DependsOn {
			gd[d] = c.Condition
		}
		if d := diffMaps(gd, rp.deps); d != "" {
			return fmt.Sprintf("%s: process %s depends_on %s", what, name, d)
		}
	}
	return ""
}

func diffMaps(got, want map[string]string) string {
	for k, w := range want {
		g, ok := got[k]
		if !ok {
			return fmt.Sprintf("lost entry %s=%q", k, w)
		}
		if g != w {
			return fmt.Sprintf("entry %s = %q, want %q", k, g, w)
		}
	}
	for k, g := range got {
		if _, ok := want[k]; !ok {
			return fmt.Sprintf("has unexpected entry %s=%q", k, g)
		}
	}
	return ""
}

// ---------------------------------------------------------------- check

func checkMerge(c MergeCase) pbt.Verdict {
	var v pbt.Verdict
	root, err := os.MkdirTemp(dir(), "merge-")
	if err != nil {
		v.Skip = true
		return v
	}
	defer os.RemoveAll(root)
	// explicit chain
	var paths []string
	for i, f := range c.Files {
		d := filepath.Join(root, "explicit", f.Dir)
		_ = os.MkdirAll(d, 0o755)
		p := filepath.Join(d, fmt.Sprintf("f%d.yaml", i))
		_ = os.WriteFile(p, []byte(f.yaml("")), 0o644)
		paths = append(paths, p)
	}
	lo := &loader.LoaderOptions{FileNames: append([]string(nil), paths...), IsInternalLoader: true}
	lo.DisableDotenv(true)
	got, err := loader.Load(lo)
	if err != nil {
		v.Violations = append(v.Violations, fmt.Sprintf("loading the chain %v failed: %v\n%s", names(paths), err, dump(c)))
		return v
	}
	if msg := compareProject(got, refMerge(c.Files, nil), "explicit chain"); msg != "" {
		v.Violations = append(v.Violations, msg+"\n"+dump(c))
		return v
	}
	// the same chain through `extends`
	if len(c.Files) >= 2 {
		var epaths []string
		wd := make([]string, len(c.Files))
		for i, f := range c.Files {
			d := filepath.Join(root, "ext", f.Dir)
			_ = os.MkdirAll(d, 0o755)
			epaths = append(epaths, filepath.Join(d, fmt.Sprintf("f%d.yaml", i)))
			if i < len(c.Files)-1 {
				wd[i] = d
			}
		}
		for i, f := range c.Files {
			ext := ""
			if i > 0 {
				rel, _ := filepath.Rel(filepath.Dir(epaths[i]), epaths[i-1])
				ext = rel
				if i%2 == 0 {
					ext = epaths[i-1] // absolute paths are used as they are
				}
			}
			_ = os.WriteFile(epaths[i], []byte(f.yaml(ext)), 0o644)
		}
		lo := &loader.LoaderOptions{FileNames: []string{epaths[len(epaths)-1]}, IsInternalLoader: true}
		lo.DisableDotenv(true)
		gotE, err := loader.Load(lo)
		if err != nil {
			v.Violations = append(v.Violations, fmt.Sprintf("loading the extends chain failed: %v\n%s", err, dump(c)))
			return v
		}
		if msg := compareProject(gotE, refMerge(c.Files, wd), "extends chain"); msg != "" {
			v.Violations = append(v.Violations, msg+"\n"+dump(c))
			return v
		}
		v.Labels = append(v.Labels, "extends")
	}
	// classification
	seen := map[string]int{}
	overridden, survived, eqval := false, false, false
	first := map[string]PFrag{}
	for _, f := range c.Files {
		for _, p := range f.Procs {
			seen[p.Name]++
			if b, ok := first[p.Name]; ok {
				for k := range p.Scalars {
					if _, ok := b.Scalars[k]; ok {
						overridden = true
					}
				}
				for k := range b.Scalars {
					if _, ok := p.Scalars[k]; !ok {
						survived = true
					}
				}
			} else {
				first[p.Name] = p
			}
			for _, e := range p.Env {
				if _, val, _ := envKV(e); strings.Contains(val, "=") {
					eqval = true
				}
			}
		}
	}
	if overridden && survived {
		v.NonTrivial = true
		v.Labels = append(v.Labels, "override+survive")
	}
	if eqval {
		v.Labels = append(v.Labels, "env-value-with-=")
	}
	for _, n := range seen {
		if n == 1 {
			v.Labels = append(v.Labels, "single-file-process")
			break
		}
	}
	return v
}

func names(p []string) []string {
	out := make([]string, len(p))
	for i, s := range p {
		out[i] = filepath.Base(s)
	}
	return out
}

func dump(c MergeCase) string {
	var b strings.Builder
	for i, f := range c.Files {
		fmt.Fprintf(&b, "--- file %d (dir %q)\n%s", i, f.Dir, f.yaml(""))
	}
	return b.String()
}

// ---------------------------------------------------------------- generator

var hostile = []string{"", "v", "a=b", "http://h/?a=1&b=2", "x==y=", " spaced value ", "it's", "say \"hi\"", "#notcomment", "a: b", "-dash", "=lead", "été", "1", "true", "null", "[x]", "{y}", "tab\there", "back\\slash"}

// names that are prefixes / case variants of each other: a merge keyed by anything but the exact name shows
var envKeys = []string{"A", "AB", "A_B", "a", "B", "URL", "URL_2", "PATH", "PATH_X", "opt_1"}
var strVals = []string{"alpha", "beta gamma", "/abs/dir", "rel/dir", "sub", "echo 'q'", "x=y", "z#1"}

// genRestated: a later file repeats an earlier definition of the process verbatim (generated
// files often do) and changes only one or two options.
func genRestated(t *rapid.T, prev PFrag) PFrag {
	p := PFrag{Name: prev.Name, Scalars: map[string]string{}, Env: append([]string(nil), prev.Env...)}
	for k, v := range prev.Scalars {
		p.Scalars[k] = v
	}
	if prev.Deps != nil {
		p.Deps = map[string]string{}
		for k, v := range prev.Deps {
			p.Deps[k] = v
		}
	}
	for i, n := 0, pbt.Range(t, 1, 2); i < n; i++ {
		o := pbt.Pick(t, opts)
		switch o.kind {
		case "s":
			if o.path == "working_dir" || o.path == "namespace" {
				continue
			}
			p.Scalars[o.path] = pbt.Pick(t, strVals) + "-r"
		case "i":
			p.Scalars[o.path] = strconv.Itoa(pbt.Range(t, 31, 60))
		case "b":
			p.Scalars[o.path] = "true"
		case "e":
			p.Scalars[o.path] = pbt.Pick(t, []string{"always", "on_failure", "no", "exit_on_failure"})
		}
	}
	return p
}

func genFrag(t *rapid.T, name string, earlier []string, later bool) PFrag {
	p := PFrag{Name: name, Scalars: map[string]string{}}
	for _, o := range opts {
		if !pbt.Pct(t, 22) {
			continue
		}
		switch o.kind {
		case "s":
			val := pbt.Pick(t, strVals)
			if o.path == "working_dir" {
				val = pbt.Pick(t, []string{"/abs/dir", "rel/dir", "sub", "/tmp"})
			}
			if o.path == "namespace" {
				val = pbt.Pick(t, []string{"ns1", "ns2"})
			}
			p.Scalars[o.path] = val
		case "i":
			p.Scalars[o.path] = strconv.Itoa(pbt.Range(t, 1, 30))
		case "b":
			p.Scalars[o.path] = "true"
		case "e":
			p.Scalars[o.path] = pbt.Pick(t, []string{"always", "on_failure", "no", "exit_on_failure"})
		}
	}
	if pbt.Pct(t, 55) {
		n := pbt.Range(t, 1, 4)
		used := map[string]bool{}
		for i := 0; i < n; i++ {
			k := pbt.Pick(t, envKeys)
			if used[k] {
				continue
			}
			used[k] = true
			p.Env = append(p.Env, k+"="+pbt.Pick(t, hostile))
		}
	}
	if len(earlier) > 0 && pbt.Pct(t, 35) {
		p.Deps = map[string]string{}
		n := pbt.Range(t, 1, 2)
		for i := 0; i < n; i++ {
			p.Deps[pbt.Pick(t, earlier)] = pbt.Pick(t, []string{"process_completed", "process_started", "process_completed_successfully"})
		}
	}
	return p
}

func genMerge(t *rapid.T) MergeCase {
	nf := pbt.Range(t, 2, 4)
	universe := []string{"p0", "p1", "p2", "p3", "p10"}
	defined := map[string]bool{}
	lastFrag := map[string]PFrag{}
	var c MergeCase
	for i := 0; i < nf; i++ {
		f := FileFrag{Dir: pbt.Pick(t, []string{".", "a", "a/b", "c"})}
		if pbt.Pct(t, 30) {
			f.LogLength = pbt.Pick(t, []int{10, 50, 200, 5000})
		}
		if pbt.Pct(t, 35) {
			used := map[string]bool{}
			for k := 0; k < pbt.Range(t, 1, 4); k++ {
				key := pbt.Pick(t, envKeys)
				if !used[key] {
					used[key] = true
					f.GlobalEnv = append(f.GlobalEnv, key+"="+pbt.Pick(t, hostile))
				}
			}
		}
		for idx, name := range universe {
			if !pbt.Pct(t, 50) {
				continue
			}
			var earlier []string
			for _, e := range universe[:idx] {
				if defined[e] {
					earlier = append(earlier, e)
				}
			}
			if prev, ok := lastFrag[name]; ok && pbt.Pct(t, 30) {
				f.Procs = append(f.Procs, genRestated(t, prev))
			} else {
				f.Procs = append(f.Procs, genFrag(t, name, earlier, i > 0))
			}
			lastFrag[name] = f.Procs[len(f.Procs)-1]
			defined[name] = true
		}
		if len(f.Procs) == 0 {
			f.Procs = append(f.Procs, genFrag(t, "p0", nil, i > 0))
			defined["p0"] = true
		}
		c.Files = append(c.Files, f)
	}
	return c
}

func TestC15Merge(t *testing.T) {
	pbt.Run(t, pbt.Spec[MergeCase]{Prop: "C15", Test: "TestC15Merge", Engine: "loadeng", Gen: genMerge, Check: checkMerge,
		Sample: func(c MergeCase) any {
			var out []string
			for i, f := range c.Files {
				out = append(out, fmt.Sprintf("file %d in %q: %s", i, f.Dir, strings.ReplaceAll(f.yaml(""), "\n", " | ")))
			}
			return out
		}})
}
