"""Per-property configuration of the driver: which test functions decide the property,
how many generated cases per shard in each tier, the non-triviality rule (echoed into the
evidence) and generator-class floors (fraction of cases; below it the run is inconclusive)."""

LIFE_ASSUME = [
    "the fake commander (build tag verif) stands in for exec.Cmd: process groups, real pipes and /proc lookups are not on this path (osproc checks cover them)",
    "quiescence is detected from a full goroutine dump: every goroutine parked and no back-off / kill timer pending",
    "restart back-off runs in scaled time (time unit hook); the lower bound is checked on the monotonic clock in the same unit",
    "probe outcomes are injected through the probe-result hook in lifecycle cases (the real prober is exercised by C10)",
]


def life(name, q, t, qshards=16, tshards=16, timeout_q=420, timeout_t=3000):
    return {'pkg': 'lifecycle', 'name': name,
            'quick': {'checks': q, 'shards': qshards, 'timeout': timeout_q},
            'thorough': {'checks': t, 'shards': tshards, 'timeout': timeout_t, 'shrink': 60}}


def tst(pkg, name, q, t, qshards=16, tshards=16, timeout_q=420, timeout_t=3000):
    return {'pkg': pkg, 'name': name,
            'quick': {'checks': q, 'shards': qshards, 'timeout': timeout_q},
            'thorough': {'checks': t, 'shards': tshards, 'timeout': timeout_t, 'shrink': 60}}


PROPS = {
    'C01': {
        'tests': [life('TestC01', 700, 12000)],
        'rule': "rapid draws a DAG of 2-6 processes (45% edge density) over the five condition types, restart policies, readiness probes / ready lines, then interleaves 0-10 drawn steps (exit of a live command with a drawn code, ready/other log line, probe ok/fail, API start/restart) with execution; non-trivial = some dependency produced an exit/probe/line event before its dependent's first launch, or a dependent ended Skipped (the gate was exercised); distinct = distinct scenario JSON (SHA-1)",
        'floors': {'gated:completed': 0.03, 'gated:started': 0.01},
        'assumptions': LIFE_ASSUME,
    },
    'C02': {
        'tests': [life('TestC02', 500, 8000), tst('osproc', 'TestC02RealBackoff', 1, 3, qshards=4, tshards=8, timeout_q=200, timeout_t=600)],
        'rule': "1-3 independent processes, policy in {'',no,always,on_failure,exit_on_failure} x max_restarts 0-4 x backoff 0-3 (scaled unit) x per-launch signal behaviour; 0-10 drawn steps: exits with codes {0,1,2}, StopProcess, ShutDownProject; non-trivial = a restarting policy saw >= 2 exits of one process; distinct = distinct scenario JSON",
        'floors': {'policy:always': 0.1, 'policy:on_failure': 0.1},
        'assumptions': LIFE_ASSUME,
    },
    'C03': {
        'tests': [life('TestC03', 600, 6000)],
        'rule': "C01-style projects (1-5 processes, start failures, hold/ignore signal behaviours) with one ShutDownProject at a drawn position of a 0-8 step tape, in half of the cases preceded by a hold of a drawn process at a drawn yield point; non-trivial = at the shutdown some process was neither running nor terminal (pending, restarting, terminating) or a hold engaged; distinct = distinct scenario JSON",
        'floors': {'hold:': 0.05},
        'assumptions': LIFE_ASSUME,
    },
    'C04': {
        'tests': [life('TestC04', 1500, 25000)],
        'rule': "C01-style projects of 1-6 processes with exit_on_end / exit_on_skipped (15% each) and exit_on_failure, start failures, bad working directories, exit codes {0,1,2,7}; non-trivial = a trigger fired while another command was alive (victims exist) or a process with dependents ended Skipped/Error; distinct = distinct scenario JSON",
        'floors': {'trigger-with-victims': 0.03, 'cannot-start-with-dependents': 0.05},
        'assumptions': LIFE_ASSUME,
    },
    'C05': {
        'tests': [life('TestC05', 1500, 25000)],
        'rule': "2-6 processes, 50% edge density, conditions weighted to completed_successfully / healthy / log_ready, failure kinds: non-zero exit, start error, bad working dir, StopProcess, exit before ready line / probe success; non-trivial = a process skipped at depth >= 2 (its failed dependency was itself skipped); distinct = distinct scenario JSON",
        'floors': {'skip-depth:2': 0.03},
        'assumptions': LIFE_ASSUME,
    },
    'C08': {
        'tests': [life('TestC08', 500, 8000)],
        'rule': "1-3 processes (fast exit, exit held until released, restarting policy, pending on a dependency), histories of up to 16 steps mixing start/stop/restart/stop-many on known and unknown names with scripted exits; non-trivial = a request on a process that was Running and a later request on the same process; distinct = distinct scenario JSON Restart requests on instances that still wait for their dependencies are admitted and followed (60%) by the end of a dependency or a further request on the same process.",
        'assumptions': LIFE_ASSUME,
    },
    'C09': {
        'tests': [life('TestC09', 800, 12000), tst('lifecycle', 'TestC09Scale', 30, 600)],
        'rule': "union generator: 1-5 processes, all conditions and policies, exit_on_* flags, start failures, bad working dirs, hold/ignore signal behaviours, disabled processes, API start/stop/restart/shutdown incl. unknown names; every status write is recorded by the state hook and every quiescent point is snapshotted; a second generator (TestC09Scale) drives scale requests that rename, add and remove replicas, some of which have ended, and compares is_running/status of every listed replica with the live commands after each request; non-trivial = some process went through >= 3 status writes including Restarting/Terminating/Skipped/Error; distinct = distinct scenario JSON",
        'assumptions': LIFE_ASSUME,
    },
    'C12': {
        'tests': [life('TestC12', 600, 10000)],
        'rule': "DAGs of 2-7 processes (45% density, process_started x3 / process_completed), ordered shutdown at a drawn position, 15% / 6% of the processes carry a shutdown.command / a one-second shutdown.timeout_seconds, dependents die only when the tape releases them (hold) in a drawn order; non-trivial = a process alive at the shutdown had >= 2 dependents alive; distinct = distinct scenario JSON",
        'floors': {'fan-in>=2': 0.1},
        'assumptions': LIFE_ASSUME,
    },
    'C18': {
        'tests': [tst('logbuf', 'TestC18Exhaustive', 1, 1, qshards=1, tshards=1),
                  tst('logbuf', 'TestC18Model', 2500, 40000),
                  tst('logbuf', 'TestC18Concurrent', 400, 6000),
                  tst('logbuf', 'TestC18Websocket', 40, 600),
                  tst('logbuf', 'TestC18TwoWriters', 40, 600)],
        'rule': "four generators: (1) exhaustive: every log length 0..12 x every (offset, limit) in [-2, len+2]^2 against a slice window; (2) rapid state machine over ProcessLogBuffer (size in {0,1,5,50}) with write bursts up to 130 lines, range queries, subscribe(tail)/unsubscribe/close, model = slice of all lines, invariants after every op; (3) a writer goroutine racing GetLogsAndSubscribe at a drawn scheduling offset; (4) websocket followers through api.InitRoutes (reading / disconnecting second follower). Non-trivial = a range query with offset>0, limit>0, offset+limit != len on a non-empty log, a subscription after lines were written, or a hand-over that fell inside the concurrent stream; distinct = distinct case JSON",
        'assumptions': ["the websocket handler is driven through a minimal IProject that only serves the log subscription calls", "a stalled follower is a recorded known finding and is only replayed, not generated"],
    },
    'C07': {
        'tests': [tst('loadeng', 'TestC07Exhaustive', 1, 1), tst('loadeng', 'TestC07Random', 250, 5000)],
        'rule': "(1) exhaustive: every digraph (self-loops included) on 1..4 nodes, i.e. 2+16+512+65536 graphs split over the shards, each loaded 8 times for n<=3 and 2 (quick) / 8 (thorough) times for n=4 because map iteration order is a hidden input; (2) rapid: 3-9 processes, 30% edge density, planted cycles of drawn length, dangling names, replicas 2-3, disabled / foreground marks, namespaces with an admitter, requested subsets (by name) with and without no-deps, then Run() behind the fake commander comparing the launched set. Oracle: Kahn-based reference (cycle/dangling), permutation + precedence predicate on the order, reference closure for the selection. Non-trivial = cycle, dangling edge, or >= 2 edges with a proper requested subset; distinct = distinct case JSON",
        'assumptions': ["edges use process_completed / process_started so that every selected process can be launched by the end game"],
    },
    'C15': {
        'tests': [tst('loadeng', 'TestC15Merge', 400, 8000)],
        'rule': "chains of 2-4 generated files in different directories; each file mentions each of 5 process names with probability 1/2 and each of 17 single-valued options with probability 0.22 (only non-zero values, as a zero is indistinguishable from 'not mentioned'), environment entries over 5 keys with values from a hostile alphabet (empty, '=', several '=', spaces, quotes, '#', ':'), depends_on entries on earlier-defined processes, global environment and log_length. Oracle: reference merge written from merge.md compared field by field with loader.Load([f1..fk]); metamorphic: the same chain expressed with extends (alternating relative and absolute paths) must load to the same project modulo the documented working-directory rule. Non-trivial = a process present in two files with one overridden and one surviving option; distinct = distinct case JSON",
        'floors': {'override+survive': 0.3, 'env-value-with-=': 0.1},
    },
    'C16': {
        'tests': [tst('loadeng', 'TestC16Load', 300, 6000)],
        'rule': "1-4 processes, replicas in {unset,1,2,3,4,10,11}, global and local vars, templates (plain, PC_REPLICA_NUM, global var, local var overriding a global one) in command, working_dir, log_location, description and in exec / http probe fields (host, path, port incl. out-of-range and non-numeric), launch timeouts {unset,0,-3,1,7}; each file is loaded 6 times. Oracle: canonical JSON equal across loads; defaults; reference replica names; reference rendering with text/template per replica. Non-trivial = replicas >= 2 with PC_REPLICA_NUM in a probe field or working dir; distinct = distinct case JSON",
        'floors': {'replicated': 0.3},
    },
    'C17': {
        'tests': [tst('loadeng', 'TestC17Expand', 400, 8000), tst('loadeng', 'TestC17Launch', 150, 3000)],
        'rule': "(1) load: values built from pieces {literal, $NAME, ${NAME}, $$} placed in command, working_dir, process and global environment values and an exec probe command; the process environment and a .env file define random subsets of four VRF_ names; dotenv on/off, disable_env_expansion on/off; oracle = reference expander on the parsed values. (2) launch: the same key defined at inherited / env_cmds (real shell command) / global / per-process level in random subsets, replicas {1,2,3,10}; oracle on the environment slice and directory handed to the commander with exec semantics (last assignment wins), PC_PROC_NAME / PC_REPLICA_NUM per replica. Non-trivial = `$$` adjacent to a reference or another `$$`, or a key defined on >= 2 levels; distinct = distinct case JSON",
        'assumptions': ["only the documented reference forms with names [A-Z_][A-Z0-9_]* are generated", "a key defined both by env_cmds and in the global environment is not judged (the statement does not order them)"],
    },
    'C11': {
        'tests': [tst('lifecycle', 'TestC11', 150, 3000)],
        'rule': "one process with 1-3 launches (restart always), each launch writes 0-150 lines on stdout/stderr with payload lengths from {0,1,8,80,4095,4096,4097,65537,262144}, optionally without the final newline and optionally as a burst immediately before the exit; log_length in {10,100,1000}; logger none / per-process file / unified file x flush_each_line x no_metadata x disable_json, optionally a second process writing into the unified file. Oracle: per stream the in-memory log is the most recent written lines in order, each once (at least log_length of them), and after Run() returned the file holds every line exactly once in per-stream order. Non-trivial = >= 2 lines with a missing final newline, a line >= 4096 bytes or a burst before exit, or a restart; distinct = distinct case JSON",
        'assumptions': LIFE_ASSUME[:2] + ["lines are handed to the command's pipes by the harness; real shells are exercised by the osproc cross-check of C06"],
    },
    'C13': {
        'tests': [tst('lifecycle', 'TestC13', 60, 1200)],
        'rule': "project: templated process web (command, description and exec readiness probe use PC_REPLICA_NUM; initial replicas 1-3), process db (replicas 1-2), a plain process and a dependent; 1-6 scale requests addressed by a current replica name, the bare name, an unknown or a stale name, n from {-1,0,1,2,3,4,9,10,11} and, in 15% of the cases, {9,10,11,99,100,101}. Oracle: differential against a fresh loader.Load with replicas: n (names, per-replica config, probe), ground truth per replica (survivors undisturbed, removed terminated, added launched once with their own number), failing requests change nothing. Non-trivial = a name-width change or a scale-down; distinct = distinct case JSON After every request each live replica prints a line that must be in its own log only.",
        'assumptions': LIFE_ASSUME[:2] + ["a request addressed by the bare name of an already replicated process may fail or succeed (the statement does not say which names are known); if it fails it must change nothing"],
    },
    'C14': {
        'tests': [tst('lifecycle', 'TestC14', 200, 4000)],
        'rule': "P = 2-6 processes over command / entrypoint (executable + arguments), environment, working dir, restart policy, readiness probe, dependencies; 1-3 successive updates P' obtained by keeping, removing or mutating each process (1-2 mutations out of: command, executable, argument, environment change/add/remove, working dir, probe, policy, back-off, dependency, description, namespace, shutdown signal) and adding new processes; in 35% of the cases the last configuration is applied twice (idempotence). Oracle: reference classification by the statement's launch-relevant field list, status map, configured set, instance identity (kept / terminated / launched with the new executable, arguments, environment and directory). Non-trivial = some process changed while another one stayed unchanged and alive; distinct = distinct case JSON A project-level variable GV is used by a quarter of the commands and changed by 30% of the updates.",
        'assumptions': LIFE_ASSUME[:2] + ["changes confined to description, namespace or shutdown signal may or may not be reported as an update (the statement does not list them as launch-relevant)"],
    },
    'C10': {
        'tests': [tst('probes', 'TestC10Params', 1500, 30000),
                  tst('lifecycle', 'TestC10Inject', 300, 6000),
                  tst('probes', 'TestC10Prober', 2, 12, qshards=32, tshards=48, timeout_q=300, timeout_t=1200),
                  tst('osproc', 'TestC10RealGiveUp', 1, 6, qshards=12, tshards=16, timeout_q=300, timeout_t=1200)],
        'rule': "(1) parameters: the five probe integers from an edge set {0,+-1,2,3,10,65535,65536,+-2^31,+-2^40} or uniform int32, port strings (empty, numeric, out of range, junk), both probe kinds, through ValidateAndSetDefaults and through a full loader.Load: legality predicate + idempotence; (2) coupling, injected outcomes: a probed process (policy in {'',no,always,on_failure} x max_restarts) or a daemon with a liveness probe, 1-10 steps of probe ok / fail / gave-up (fatal), exits, stop: reported health and stop/relaunch compared with the statement after every step, process_healthy dependent launched only after a success; (3) the real Prober against a scripted HTTP target (200 / 500, period 1 s, threshold 1-3): callback ok/fatal sequence vs consecutive-failure count, and silence after a stop inside the initial delay; (4) the unhooked runner with real probes and a real process whose exec probe fails all the time (optionally after one success): one stop-and-relaunch per failure_threshold failures, 2-3 times in a row. Non-trivial = an illegal configured value, a script that reaches the threshold or flips ok<->fail; distinct = distinct case JSON",
        'assumptions': LIFE_ASSUME[:2] + ["success_threshold is documented as not respected and is not asserted", "the real-time prober cases are bounded by the 1 s period; a case whose callbacks do not arrive in time is inconclusive, never a violation"],
    },
    'C19': {
        'tests': [tst('rest', 'TestC19', 100, 2500)],
        'rule': "a live runner (keeper, a replicated process with 1-3 replicas, a restarting job, a dependent, a disabled process) behind httptest + api.InitRoutes and a client.PcClient; sequences of 5-30 steps over every route: reads (states, state, info, logs, project state, ports) compared three ways (REST body vs direct call vs client decode, canonical JSON with age/mem/cpu/uptime masked), state-changing requests (stop/start/restart/scale/stop-many/update-process, alternately through REST and the client) with outcome class and post-state checks, invalid requests (unknown and hostile names, non-numeric / negative / overflowing numbers, malformed and wrongly typed bodies, wrong methods and routes), interleaved with process exits and log lines. Every answer must be < 500, invalid ones 4xx, and GET /live must answer 200 after every step. Non-trivial = a read of a process after a state change plus at least one invalid request; distinct = distinct case JSON",
        'assumptions': LIFE_ASSUME[:1] + ["names passed to the client are restricted to [A-Za-z0-9_.-] (it builds URLs without escaping); other names go to the server with proper escaping", "SetProcessPassword, swagger and the client's unimplemented GetProcessLog are outside the compared surface; the websocket stream is covered by C18", "a request that does not return within 6 s is reported as a violation (the server 'stopped serving' that request)"],
    },
    'C06': {
        'needs_binary': True,
        'tests': [tst('osproc', 'TestC06', 5, 60, qshards=32, tshards=32, timeout_q=400, timeout_t=3000)],
        'rule': "real bash process trees (parent with 0-3 children and 0-2 grandchildren, every member trapping and recording signals, dying or ignoring them) managed by the unhooked production code path; shutdown.signal from the trappable set and out-of-range values, parent_only, timeout_seconds, shutdown.command (succeeding, failing, outliving its timeout); the stop arrives 0-120 ms after the whole tree reported ready, through StopProcess, ShutDownProject, or SIGTERM / SIGINT / SIGHUP sent to the production binary. Oracle: recorded signal per member, /proc aliveness of every member after the request completed, a still-alive observation shortly before timeout_seconds for ignoring parents (sound lower bound for SIGKILL), content written by the shutdown command (name, environment, working directory), bystander process untouched by StopProcess and gone after a project shutdown. Non-trivial = a tree with descendants or any non-default shutdown parameter; distinct = distinct case JSON",
        'floors': {'parent_only': 0.05, 'signal-out-of-range': 0.03},
        'assumptions': ["real time: a case that cannot bring its tree up within 10 s is inconclusive", "members that ignore the signal are only generated below an ignoring parent with a timeout (otherwise nothing in the statement ends them)", "with parent_only the harness itself ends the descendants once the parent is gone (they hold the output pipes open)"],
    },
    'C20': {
        'race': True, 'race_mode': True, 'crash_tolerance': 0.6,
        # many short-lived processes: a shard that dies of a recorded crash loses at most its own 8-10 cases
        'tests': [tst('race', 'TestC20', 8, 10, qshards=48, tshards=800, timeout_q=400, timeout_t=600)],
        'env': {'VERIF_FLUSH_EVERY': '5'},
        'rule': "race-instrumented build (-race); projects of 6 fake processes that keep logging, exiting and being restarted by a churn goroutine; op sets of 2-4 operations drawn from {GetProcessesState, GetProcessState, GetProcessInfo, GetProcessLog(+length), GetLogsAndSubscribe/UnSubscribe, GetProjectState, names, Start, Stop, Restart} and, in half of the cases, {Scale, UpdateProject}; each case releases the op set together for 12 rounds, then shuts the project down. Oracle: race-detector reports keyed by the functions of the two innermost process-compose frames (every function that races on the unchanged tree is a recorded finding; a report involving any other function is a violation), supervisor crashes keyed by message class and site, 20 s watchdog on every round and on the final shutdown. Non-trivial = at least one state-changing operation in a set of >= 2; distinct = distinct case JSON",
        'assumptions': ["the race detector only sees interleavings that occur; absence of reports is weak evidence", "identity of a data race is the racy function, not the pair: the set of functions saturates after about 1 000 cases, the set of pairs does not", "shards that die of a recorded crash lose their remaining cases; the run is inconclusive if more than 60% of the shards die"],
    },
}
