module verif/harness

go 1.23

toolchain go1.23.5

require (
	dario.cat/mergo v1.0.1
	github.com/InVisionApp/go-health/v2 v2.1.4
	github.com/InVisionApp/go-logger v1.0.1
	github.com/KyleBanks/depth v1.2.1
	github.com/adrg/xdg v0.5.3
	github.com/bytedance/sonic v1.12.5
	github.com/bytedance/sonic/loader v0.2.1
	github.com/cakturk/go-netstat v0.0.0-20200220111822-e5b49efee7a5
	github.com/cloudwego/base64x v0.1.4
	github.com/cloudwego/iasm v0.2.0
	github.com/cpuguy83/go-md2man/v2 v2.0.4
	github.com/creack/pty v1.1.24
	github.com/ebitengine/purego v0.8.1
	github.com/f1bonacc1/glippy v0.0.0-20230614190937-e7ca07f99f6f
	github.com/f1bonacc1/process-compose v0.0.0
	github.com/fatih/color v1.18.0
	github.com/gabriel-vasile/mimetype v1.4.7
	github.com/gdamore/encoding v1.0.1
	github.com/gdamore/tcell/v2 v2.7.4
	github.com/gin-contrib/sse v0.1.0
	github.com/gin-gonic/gin v1.10.0
	github.com/go-ole/go-ole v1.2.6
	github.com/go-openapi/jsonpointer v0.21.0
	github.com/go-openapi/jsonreference v0.21.0
	github.com/go-openapi/spec v0.21.0
	github.com/go-openapi/swag v0.23.0
	github.com/go-playground/locales v0.14.1
	github.com/go-playground/universal-translator v0.18.1
	github.com/go-playground/validator/v10 v10.23.0
	github.com/goccy/go-json v0.10.4
	github.com/gorilla/websocket v1.5.3
	github.com/inconshreveable/mousetrap v1.1.0
	github.com/jezek/xgb v1.1.1
	github.com/joho/godotenv v1.5.1
	github.com/josharian/intern v1.0.0
	github.com/json-iterator/go v1.1.12
	github.com/klauspost/cpuid/v2 v2.2.9
	github.com/leodido/go-urn v1.4.0
	github.com/lucasb-eyer/go-colorful v1.2.0
	github.com/lufia/plan9stats v0.0.0-20211012122336-39d0f177ccd0
	github.com/mailru/easyjson v0.9.0
	github.com/mattn/go-colorable v0.1.13
	github.com/mattn/go-isatty v0.0.20
	github.com/mattn/go-runewidth v0.0.16
	github.com/modern-go/concurrent v0.0.0-20180306012644-bacd9c7ef1dd
	github.com/modern-go/reflect2 v1.0.2
	github.com/pelletier/go-toml/v2 v2.2.3
	github.com/power-devops/perfstat v0.0.0-20210106213030-5aafc221ea8c
	github.com/rivo/tview v0.0.0-20241103174730-c76f7879f592
	github.com/rivo/uniseg v0.4.7
	github.com/rs/zerolog v1.33.0
	github.com/russross/blackfriday/v2 v2.1.0
	github.com/shirou/gopsutil/v4 v4.24.11
	github.com/spf13/cobra v1.8.1
	github.com/spf13/pflag v1.0.5
	github.com/swaggo/files v1.0.1
	github.com/swaggo/gin-swagger v1.6.0
	github.com/swaggo/swag v1.16.4
	github.com/tklauser/go-sysconf v0.3.12
	github.com/tklauser/numcpus v0.6.1
	github.com/twitchyliquid64/golang-asm v0.15.1
	github.com/ugorji/go/codec v1.2.12
	github.com/yusufpapurcu/wmi v1.2.4
	golang.org/x/arch v0.12.0
	golang.org/x/crypto v0.31.0
	golang.org/x/net v0.33.0
	golang.org/x/sys v0.28.0
	golang.org/x/term v0.27.0
	golang.org/x/text v0.21.0
	golang.org/x/tools v0.28.0
	google.golang.org/protobuf v1.35.2
	gopkg.in/natefinch/lumberjack.v2 v2.2.1
	gopkg.in/yaml.v2 v2.4.0
	gopkg.in/yaml.v3 v3.0.1
	pgregory.net/rapid v1.3.0
)

replace github.com/f1bonacc1/process-compose => /repo

replace github.com/InVisionApp/go-health/v2 => github.com/f1bonacc1/go-health/v2 v2.1.4

replace github.com/cakturk/go-netstat => github.com/f1bonacc1/netstat v0.0.0-20230714090734-adb3fa07cab7
