package sc

import (
	"encoding/json"
	"errors"
	"fmt"
	"os"
	"path/filepath"
	"sort"
	"strings"
	"sync"
	"time"
	"verif/harness/stats"

	"github.com/f1bonacc1/process-compose/src/app"
	"github.com/f1bonacc1/process-compose/src/command"
	"github.com/f1bonacc1/process-compose/src/loader"
	"github.com/f1bonacc1/process-compose/src/types"
	"github.com/rs/zerolog"
	"github.com/rs/zerolog/log"

	"verif/harness/world"
)

func init() {
	log.Logger = zerolog.Nop() // silence the supervisor's own log, not the process log files
}

// Snapshot is the reported state and the ground truth at one quiescent point.
type Snapshot struct {
	Seq    int                           `json:"seq"` // number of events recorded before the snapshot
	States map[string]types.ProcessState `json:"states"`
	Live   map[string][]int              `json:"live"` // replica -> instances alive
	Final  bool                          `json:"final,omitempty"`
}

type Applied struct {
	Step       Step `json:"step"`
	Applicable bool `json:"applicable"`
	SeqBefore  int  `json:"seq_before"`
	SeqAfter   int  `json:"seq_after"`
}

type CallResult struct {
	ID      int               `json:"id"`
	Op      string            `json:"op"`
	Proc    string            `json:"proc,omitempty"`
	SeqCall int               `json:"seq_call"`
	SeqRet  int               `json:"seq_ret"` // -1 while outstanding
	Err     string            `json:"err,omitempty"`
	Status  map[string]string `json:"status,omitempty"`
}

type History struct {
	Scenario    *Scenario      `json:"scenario"`
	Events      []world.Event  `json:"events"`
	Applied     []Applied      `json:"applied"`
	Snaps       []Snapshot     `json:"snaps"`
	Calls       []*CallResult  `json:"calls"`
	RunReturned bool           `json:"run_returned"`
	RunCode     int            `json:"run_code"` // 0 = nil error
	RunErr      string         `json:"run_err,omitempty"`
	RunSeq      int            `json:"run_seq"`
	LoadErr     string         `json:"load_err,omitempty"`
	Busy        string         `json:"busy,omitempty"`   // non-empty: quiescence not reached (inconclusive)
	Parked      []string       `json:"parked,omitempty"` // SUT goroutines still parked after the end game
	Finished    bool           `json:"finished"`
	UnitMs      int            `json:"unit_ms"`
	Project     *types.Project `json:"-"`
}

type Exec struct {
	Sc     *Scenario
	W      *world.World
	R      *app.ProjectRunner
	H      *History
	dir    string
	mu     sync.Mutex
	nCalls int
	unit   time.Duration
	// ShutdownSeen is set once a shutdown was requested by a step.
	ShutdownSeen bool
}

var tmpRoot string
var tmpOnce sync.Once

func TmpRoot() string {
	tmpOnce.Do(func() {
		d, err := os.MkdirTemp("", "verif-sc-")
		if err != nil {
			panic(err)
		}
		tmpRoot = d
	})
	return tmpRoot
}

// LoadProject writes the specs as YAML into dir and loads them through the production loader.
func LoadProject(dir string, procs []ProcSpec, strict bool, logLength int, top ...string) (*types.Project, error) {
	f := filepath.Join(dir, "pc.yaml")
	if err := os.WriteFile(f, []byte(YAML(procs, strict, logLength, top...)), 0o644); err != nil {
		return nil, err
	}
	opts := &loader.LoaderOptions{FileNames: []string{f}, IsInternalLoader: true}
	opts.DisableDotenv(true)
	return loader.Load(opts)
}

// Begin loads the project, builds a runner behind the fake commander and starts Run().
var leftoverStreak int

func firstLines(s string, n int) string {
	l := strings.Split(s, "\n")
	if len(l) > n {
		l = l[:n]
	}
	return strings.Join(l, "\n")
}

// ErrLeftover: the case was not started because an earlier case of this process has not come to rest.
var ErrLeftover = errors.New("an earlier case has not come to rest")

func Begin(s *Scenario) (*Exec, error) {
	dir, err := os.MkdirTemp(TmpRoot(), "case-")
	if err != nil {
		return nil, err
	}
	e := &Exec{Sc: s, dir: dir, H: &History{Scenario: s, RunSeq: -1}}
	unit := s.TimeUnitMs
	if unit <= 0 {
		unit = 4
	}
	e.unit = time.Duration(unit) * time.Millisecond
	e.H.UnitMs = unit
	project, err := LoadProject(dir, s.Procs, s.Strict, s.LogLength, s.Top)
	if err != nil {
		e.H.LoadErr = err.Error()
		os.RemoveAll(dir)
		return e, err
	}
	e.H.Project = project
	w := world.New()
	e.W = w
	// carry-over guard: the hooks are process-wide, so a goroutine of an earlier case that is still
	// active (it ended inconclusively, e.g. inside a back-off sleep) would launch its command into
	// this case's world. Wait until everything left over is parked for good; otherwise do not start.
	if ok, busy := world.Settle(8 * time.Second); !ok {
		e.H.Busy = "a goroutine of an earlier case is still active: " + busy
		leftoverStreak++
		if leftoverStreak >= 2 {
			// it never comes to rest: every further case of this process would wait and be skipped.
			// Give the remaining cases up; what was explored so far stays in the statistics.
			fmt.Printf("SHARD-ABANDONED: a goroutine left over by an earlier (inconclusive) case never came to rest:\n%s\n", firstLines(busy, 40))
			stats.FlushAll()
			os.Exit(5)
		}
		return e, ErrLeftover
	}
	leftoverStreak = 0
	w.Behave = func(name string, k int) world.Behaviour {
		sp := e.specFor(name)
		if sp == nil || len(sp.Beh) == 0 {
			return world.Behaviour{}
		}
		if k >= len(sp.Beh) {
			k = len(sp.Beh) - 1
		}
		return world.Behaviour{StartErr: sp.Beh[k].StartErr, OnSignal: sp.Beh[k].OnSignal}
	}
	app.SetVerifHooks(&app.VerifHooks{
		Commander: func(conf *types.ProcessConfig, exe string, args []string) command.Commander {
			return w.NewCmd(conf.Name, conf.ReplicaName, conf.ReplicaNum, exe, args)
		},
		State: func(name, state string) {
			w.Record(world.Event{Kind: world.EvState, Proc: name, Text: state})
		},
		TimeUnit: e.unit,
		Yield: func(point, name string) {
			switch point {
			case "runProcess.afterWait":
				w.Record(world.Event{Kind: world.EvMark, Proc: name, Text: "released"})
			case "shutdown.afterCollect":
				w.Record(world.Event{Kind: world.EvMark, Text: "shutdown-begin"})
			}
			w.Yield(point, name)
		},
		InjectedProbes: true,
	})
	opts := (&app.ProjectOpts{}).WithProject(project).WithIsTuiOn(true).WithOrderedShutDown(s.Ordered).
		WithProcessesToRun(s.ToRun).WithNoDeps(s.NoDeps)
	r, err := app.NewProjectRunner(opts)
	if err != nil {
		e.H.LoadErr = "runner: " + err.Error()
		os.RemoveAll(dir)
		return e, err
	}
	e.R = r
	for _, ph := range s.PreHolds {
		w.ArmHold(ph.Point, ph.Proc, time.Hour)
	}
	go func() {
		err := r.Run()
		ev := world.Event{Kind: world.EvMark, Text: "run-returned"}
		e.mu.Lock()
		e.H.RunReturned = true
		if err != nil {
			var ee *app.ExitError
			if errors.As(err, &ee) {
				e.H.RunCode = ee.Code
			} else {
				e.H.RunCode = -999
			}
			e.H.RunErr = err.Error()
			ev.Code = e.H.RunCode
		}
		e.mu.Unlock()
		rec := w.Record(ev)
		e.mu.Lock()
		e.H.RunSeq = rec.Seq
		e.mu.Unlock()
	}()
	e.settleAndSnap(false)
	if os.Getenv("VERIF_DEBUG_BEGIN") != "" && w.NumEvents() == 0 {
		fmt.Fprintf(os.Stderr, "DEBUG-BEGIN: no events after first settle\n%s\n", world.DumpText())
	}
	return e, nil
}

// specFor finds the newest spec for a config name (updates may replace it).
func (e *Exec) specFor(name string) *ProcSpec {
	e.mu.Lock()
	defer e.mu.Unlock()
	for i := len(e.H.Applied) - 1; i >= 0; i-- {
		st := e.H.Applied[i].Step
		if st.Op == OpUpdate {
			for j := range st.Procs {
				if st.Procs[j].Name == name {
					return &st.Procs[j]
				}
			}
		}
	}
	return e.Sc.Spec(name)
}

func (e *Exec) RunReturned() bool {
	e.mu.Lock()
	defer e.mu.Unlock()
	return e.H.RunReturned
}

func (e *Exec) Outstanding() int {
	e.mu.Lock()
	defer e.mu.Unlock()
	n := 0
	for _, c := range e.H.Calls {
		if c.SeqRet < 0 {
			n++
		}
	}
	return n
}

// OutstandingOn counts the unreturned calls of the given ops on proc.
func (e *Exec) OutstandingOn(proc string, ops ...string) int {
	e.mu.Lock()
	defer e.mu.Unlock()
	n := 0
	for _, c := range e.H.Calls {
		if c.SeqRet >= 0 || c.Proc != proc {
			continue
		}
		for _, o := range ops {
			if c.Op == o {
				n++
			}
		}
	}
	return n
}

func (e *Exec) call(op, proc string, fn func() (map[string]string, error)) {
	e.mu.Lock()
	e.nCalls++
	cr := &CallResult{ID: e.nCalls, Op: op, Proc: proc, SeqRet: -1}
	e.H.Calls = append(e.H.Calls, cr)
	e.mu.Unlock()
	ev := e.W.Record(world.Event{Kind: world.EvAPI, Proc: proc, Text: op, Inst: cr.ID})
	cr.SeqCall = ev.Seq
	go func() {
		st, err := fn()
		txt := "ok"
		if err != nil {
			txt = "err: " + err.Error()
		}
		e.mu.Lock()
		if err != nil {
			cr.Err = err.Error()
			if cr.Err == "" {
				cr.Err = "error"
			}
		}
		cr.Status = st
		e.mu.Unlock()
		rv := e.W.Record(world.Event{Kind: world.EvAPIRet, Proc: proc, Text: op + " " + txt, Inst: cr.ID})
		e.mu.Lock()
		cr.SeqRet = rv.Seq
		e.mu.Unlock()
	}()
}

func noStatus(f func() error) func() (map[string]string, error) {
	return func() (map[string]string, error) { return nil, f() }
}

// Do applies one step and (unless NoSettle) waits for quiescence and snapshots.
func (e *Exec) Do(st Step) bool {
	before := e.W.NumEvents()
	ok := e.apply(st)
	e.mu.Lock()
	e.H.Applied = append(e.H.Applied, Applied{Step: st, Applicable: ok, SeqBefore: before})
	idx := len(e.H.Applied) - 1
	e.mu.Unlock()
	if !st.NoSettle {
		e.settleAndSnap(false)
	}
	// never take the world's lock while holding e.mu: FakeCmd.Start holds the world's lock when it
	// asks specFor (e.mu) for the behaviour of the launch
	after := e.W.NumEvents()
	e.mu.Lock()
	e.H.Applied[idx].SeqAfter = after
	e.mu.Unlock()
	return ok
}

func (e *Exec) liveOne(proc string) *world.FakeCmd {
	l := e.W.LiveCmds(proc)
	if len(l) == 0 {
		return nil
	}
	return l[len(l)-1]
}

func (e *Exec) apply(st Step) bool {
	if e.H.Busy != "" {
		return false
	}
	switch st.Op {
	case OpExit:
		c := e.liveOne(st.Proc)
		if c == nil {
			return false
		}
		return c.Exit(st.Code)
	case OpLine:
		c := e.liveOne(st.Proc)
		if c == nil {
			return false
		}
		data := st.Text
		if st.N == 0 { // N=1: no trailing newline
			data += "\n"
		}
		return c.Write(st.Stream, data, st.Text, 2*time.Second)
	case OpProbe, OpLiveProbe:
		if e.liveOne(st.Proc) == nil {
			return false
		}
		ready := st.Op == OpProbe
		txt := "fail"
		if st.OK {
			txt = "ok"
		}
		if st.Fatal {
			txt += " fatal"
		}
		if !ready {
			txt = "live " + txt
		}
		c := e.liveOne(st.Proc)
		e.W.Record(world.Event{Kind: world.EvProbe, Proc: st.Proc, Inst: c.Inst, Text: txt})
		done := make(chan bool, 1)
		go func() { done <- e.R.VerifProbeResult(st.Proc, ready, st.OK, st.Fatal, "scripted") }()
		select {
		case r := <-done:
			return r
		case <-time.After(50 * time.Millisecond):
			return true // the callback is blocked inside a stop; Settle will see it parked
		}
	case OpKillRelease:
		for _, c := range e.W.LiveCmds(st.Proc) {
			if c.ReleaseKill() {
				return true
			}
		}
		return false
	case OpStart:
		e.noteCurrent(st)
		e.call(OpStart, st.Proc, noStatus(func() error { return e.R.StartProcess(st.Proc) }))
	case OpStop:
		e.call(OpStop, st.Proc, noStatus(func() error { return e.R.StopProcess(st.Proc) }))
	case OpStopMany:
		names := st.Names
		e.call(OpStopMany, strings.Join(names, ","), func() (map[string]string, error) { return e.R.StopProcesses(names) })
	case OpRestart:
		e.noteCurrent(st)
		e.call(OpRestart, st.Proc, noStatus(func() error { return e.R.RestartProcess(st.Proc) }))
	case OpScale:
		n := st.N
		e.call(OpScale, st.Proc, noStatus(func() error { return e.R.ScaleProcess(st.Proc, n) }))
	case OpShutdown:
		e.ShutdownSeen = true
		e.call(OpShutdown, "", noStatus(func() error { return e.R.ShutDownProject() }))
	case OpUpdate:
		d, err := os.MkdirTemp(e.dir, "upd-")
		if err != nil {
			return false
		}
		top := e.Sc.Top
		if st.Top != "" {
			top = st.Top
		}
		prj, err := LoadProject(d, st.Procs, e.Sc.Strict, e.Sc.LogLength, top)
		if err != nil {
			e.W.Record(world.Event{Kind: world.EvMark, Text: "update-load-error " + err.Error()})
			return false
		}
		e.call(OpUpdate, "", func() (map[string]string, error) { return e.R.UpdateProject(prj) })
	case OpHold:
		e.W.ArmHold(st.Point, st.Proc, time.Hour)
	case OpRelease:
		e.W.ReleaseHold(st.Point, st.Proc)
	case OpAwaitState:
		from := e.W.NumEvents() - st.N
		if from < 0 {
			from = 0
		}
		return e.W.WaitFor(500*time.Millisecond, func() bool {
			evs := e.W.EventsLocked()
			for i := len(evs) - 1; i >= from && i >= 0; i-- {
				if evs[i].Kind == world.EvState && evs[i].Proc == st.Proc && evs[i].Text == st.Text {
					return true
				}
			}
			return false
		})
	case OpSettle:
	default:
		return false
	}
	return true
}

// settleAndSnap waits for quiescence; if the runner is not inside a project shutdown
// and no API call is outstanding it records a snapshot of the reported states.
func (e *Exec) settleAndSnap(final bool) bool {
	if e.H.Busy != "" {
		return false
	}
	ok, gs, busy := world.SettleDump(8 * time.Second)
	if !ok {
		e.H.Busy = busy
		return false
	}
	if e.R == nil {
		return true
	}
	for _, g := range gs {
		if strings.Contains(g.Body, "app.(*ProjectRunner).ShutDownProject") ||
			strings.Contains(g.Body, "app.(*ProjectRunner).ScaleProcess") ||
			strings.Contains(g.Body, "app.(*ProjectRunner).UpdateProject") ||
			strings.Contains(g.Body, "app.(*ProjectRunner).SetProcessPassword") {
			return true // state queries would block on the runner's mutex or race with a map write
		}
	}
	e.snap(final)
	return true
}

func (e *Exec) snap(final bool) {
	seq := e.W.NumEvents()
	sts, err := e.R.GetProcessesState()
	if err != nil {
		e.W.Record(world.Event{Kind: world.EvMark, Text: "states-error " + err.Error()})
		return
	}
	sn := Snapshot{Seq: seq, States: map[string]types.ProcessState{}, Live: map[string][]int{}, Final: final}
	for _, s := range sts.States {
		sn.States[s.Name] = s
	}
	for _, c := range e.W.LiveCmds("") {
		sn.Live[c.Replica] = append(sn.Live[c.Replica], c.Inst)
	}
	if e.W.NumEvents() != seq {
		return // something moved; not a quiescent snapshot
	}
	e.mu.Lock()
	e.H.Snaps = append(e.H.Snaps, sn)
	e.mu.Unlock()
}

// Finish drives the project to completion: remaining commands exit (scripted), then a
// shutdown is requested if anything keeps restarting; finally Run() must have returned.
func (e *Exec) Finish() *History {
	defer e.cleanup()
	if e.R != nil && e.H.Busy != "" {
		e.wreck()
	}
	if e.R == nil || e.H.Busy != "" {
		return e.finalize()
	}
	if !e.Sc.NoFinish {
		codeAt := func(i int) int {
			if len(e.Sc.FinishCodes) == 0 {
				return 0
			}
			return e.Sc.FinishCodes[i%len(e.Sc.FinishCodes)]
		}
		k := 0
		rounds := e.Sc.FinishRounds
		if rounds <= 0 {
			rounds = 3
		}
		for round := 0; round < rounds+40 && e.H.Busy == ""; round++ {
			e.W.ReleaseAllHolds()
			live := e.W.LiveCmds("")
			if len(live) == 0 && e.RunReturned() && e.Outstanding() == 0 {
				break
			}
			if round == rounds && !e.ShutdownSeen {
				e.Do(Step{Op: OpShutdown})
				continue
			}
			if len(live) == 0 {
				if round > rounds {
					break
				}
				e.settleAndSnap(false)
				continue
			}
			sort.Slice(live, func(i, j int) bool { return live[i].Inst < live[j].Inst })
			for _, c := range live {
				if c.PendingKill() {
					e.Do(Step{Op: OpKillRelease, Proc: c.Replica})
				} else {
					e.Do(Step{Op: OpExit, Proc: c.Replica, Code: codeAt(k)})
					k++
				}
			}
		}
	}
	e.W.ReleaseAllHolds()
	e.settleAndSnap(true)
	return e.finalize()
}

// wreck: the case is inconclusive (quiescence was not reached) and will not be judged; bring its
// runner down as well as possible so that it does not keep working (an unlimited restart loop would
// run for ever) while the next cases of this process execute.
func (e *Exec) wreck() {
	e.W.ReleaseAllHolds()
	r := e.R
	go func() {
		defer func() { _ = recover() }()
		_ = r.ShutDownProject()
	}()
	for i := 0; i < 20; i++ {
		live := e.W.LiveCmds("")
		for _, c := range live {
			c.Exit(0)
		}
		time.Sleep(5 * time.Millisecond)
		if len(live) == 0 && i > 2 {
			break
		}
	}
}

func (e *Exec) finalize() *History {
	if e.W != nil {
		e.H.Events = e.W.Events()
		if e.H.Busy == "" {
			for _, g := range world.SUTGoroutines() {
				e.H.Parked = append(e.H.Parked, "["+g.State+"]"+g.Body)
			}
		}
	}
	e.H.Finished = true
	return e.H
}

func (e *Exec) cleanup() {
	app.SetVerifHooks(nil)
	os.RemoveAll(e.dir)
}

// Replay runs a complete scenario without any generator.
func Replay(s *Scenario) *History {
	e, err := Begin(s)
	if err != nil {
		return e.finalize()
	}
	for _, st := range s.Steps {
		e.Do(st)
	}
	return e.Finish()
}

func (h *History) JSON() string {
	b, _ := json.MarshalIndent(h, "", " ")
	return string(b)
}

// Trace renders the event log compactly for failure reports.
func (h *History) Trace() string {
	var b strings.Builder
	for _, e := range h.Events {
		fmt.Fprintf(&b, "%4d %8.3fms %-9s %-10s", e.Seq, float64(e.T.Microseconds())/1000, e.Kind, e.Proc)
		if e.Inst != 0 {
			fmt.Fprintf(&b, " inst=%d", e.Inst)
		}
		if e.Kind == world.EvExit || e.Kind == world.EvMark && e.Code != 0 {
			fmt.Fprintf(&b, " code=%d", e.Code)
		}
		if e.Kind == world.EvStop {
			fmt.Fprintf(&b, " sig=%d", e.Sig)
		}
		if e.Cause != "" {
			b.WriteString(" " + e.Cause)
		}
		if e.Text != "" {
			b.WriteString(" " + e.Text)
		}
		b.WriteByte('\n')
	}
	return b.String()
}

// noteCurrent leaves the scenario so far on disk before a step that can crash the whole
// test process (a runtime panic inside the runner cannot be recovered by the harness).
func (e *Exec) noteCurrent(next Step) {
	dir := os.Getenv("VERIF_FAIL_DIR")
	if dir == "" {
		return
	}
	e.mu.Lock()
	cp := *e.Sc
	cp.Steps = nil
	for _, a := range e.H.Applied {
		cp.Steps = append(cp.Steps, a.Step)
	}
	e.mu.Unlock()
	cp.Steps = append(cp.Steps, next)
	b, _ := json.Marshal(map[string]any{"scenario": cp, "note": "scenario in flight when the process died"})
	_ = os.WriteFile(filepath.Join(dir, "inflight.tmp"), b, 0o644)
}
