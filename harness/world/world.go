// Package world is the harness side of the commander seam: scripted in-memory
// commands, an append-only event log with ground truth, holds at yield points
// and quiescence detection. It imports nothing from src/app.
package world

import (
	"errors"
	"fmt"
	"io"
	"sync"
	"time"
)

// Event kinds.
const (
	EvLaunch    = "launch"
	EvStartFail = "startfail"
	EvExit      = "exit"
	EvStop      = "stop"
	EvState     = "state"
	EvLine      = "line"
	EvProbe     = "probe"
	EvAPI       = "api"
	EvAPIRet    = "apiret"
	EvHold      = "hold"
	EvRelease   = "release"
	EvMark      = "mark"
)

// Exit causes.
const (
	CauseScripted  = "scripted"
	CauseSignalled = "signalled"
)

type Event struct {
	Seq   int           `json:"seq"`
	T     time.Duration `json:"t"`
	Kind  string        `json:"kind"`
	Proc  string        `json:"proc,omitempty"`
	Inst  int           `json:"inst,omitempty"`
	Code  int           `json:"code,omitempty"`
	Sig   int           `json:"sig,omitempty"`
	Cause string        `json:"cause,omitempty"`
	Text  string        `json:"text,omitempty"`
}

func (e Event) String() string {
	return fmt.Sprintf("#%d %s %s inst=%d code=%d sig=%d %s %q", e.Seq, e.Kind, e.Proc, e.Inst, e.Code, e.Sig, e.Cause, e.Text)
}

// Behaviour of one launch of a process.
type Behaviour struct {
	StartErr bool   `json:"start_err,omitempty"`
	OnSignal string `json:"on_signal,omitempty"` // "" = dies at once; "hold" = dies when the harness releases it; "ignore" = only SIGKILL kills
}

type Violation struct {
	Prop string `json:"prop"`
	Kind string `json:"kind"`
	Msg  string `json:"msg"`
}

type World struct {
	mu     sync.Mutex
	cond   *sync.Cond
	start  time.Time
	events []Event
	nInst  int
	// Behave decides the behaviour of the k-th launch (0-based) of a process (by config name).
	Behave   func(name string, k int) Behaviour
	launches map[string]int // per replica name
	cmds     []*FakeCmd     // every started command
	// OnLaunch/OnStop monitors run under the world lock at the instant of the call.
	OnLaunch []func(w *World, c *FakeCmd)
	OnStop   []func(w *World, c *FakeCmd, sig int)
	viol     []Violation
	holds    map[string]*hold // key: point|proc
}

func New() *World {
	w := &World{start: time.Now(), launches: map[string]int{}, holds: map[string]*hold{}}
	w.cond = sync.NewCond(&w.mu)
	return w
}

func (w *World) now() time.Duration { return time.Since(w.start) }

// add appends an event; caller holds w.mu.
func (w *World) add(e Event) Event {
	e.Seq = len(w.events)
	e.T = w.now()
	w.events = append(w.events, e)
	w.cond.Broadcast()
	return e
}

// Record appends an event from outside (API calls, marks, state changes).
func (w *World) Record(e Event) Event {
	w.mu.Lock()
	defer w.mu.Unlock()
	return w.add(e)
}

func (w *World) Events() []Event {
	w.mu.Lock()
	defer w.mu.Unlock()
	return append([]Event(nil), w.events...)
}

func (w *World) NumEvents() int {
	w.mu.Lock()
	defer w.mu.Unlock()
	return len(w.events)
}

// EventsLocked is for monitors running under the lock.
func (w *World) EventsLocked() []Event { return w.events }

func (w *World) Violate(prop, kind, msg string) {
	w.viol = append(w.viol, Violation{prop, kind, msg})
}

func (w *World) ViolateSafe(prop, kind, msg string) {
	w.mu.Lock()
	defer w.mu.Unlock()
	w.Violate(prop, kind, msg)
}

func (w *World) Violations() []Violation {
	w.mu.Lock()
	defer w.mu.Unlock()
	return append([]Violation(nil), w.viol...)
}

// WaitFor blocks until pred (evaluated under the lock) holds or the timeout expires.
func (w *World) WaitFor(timeout time.Duration, pred func() bool) bool {
	deadline := time.Now().Add(timeout)
	done := make(chan struct{})
	defer close(done)
	go func() {
		t := time.NewTicker(5 * time.Millisecond)
		defer t.Stop()
		for {
			select {
			case <-done:
				return
			case <-t.C:
				w.mu.Lock()
				w.cond.Broadcast()
				w.mu.Unlock()
			}
		}
	}()
	w.mu.Lock()
	defer w.mu.Unlock()
	for !pred() {
		if time.Now().After(deadline) {
			return false
		}
		w.cond.Wait()
	}
	return true
}

// ---------------------------------------------------------------- commands

type FakeCmd struct {
	w       *World
	Name    string // config name
	Replica string // replica name at creation
	RepNum  int
	Exe     string
	Args    []string
	Env     []string
	Dir     string
	Inst    int
	K       int // launch index of this replica name
	beh     Behaviour
	started bool
	alive   bool
	exited  chan struct{}
	code    int
	outR    *io.PipeReader
	outW    *io.PipeWriter
	errR    *io.PipeReader
	errW    *io.PipeWriter
	// signals received while alive
	Signals     []int
	pendingKill bool // received a deadly signal under OnSignal=hold
	wmu         sync.Mutex
}

// NewCmd is the commander factory body.
func (w *World) NewCmd(name, replica string, repNum int, exe string, args []string) *FakeCmd {
	return &FakeCmd{w: w, Name: name, Replica: replica, RepNum: repNum, Exe: exe, Args: append([]string(nil), args...), exited: make(chan struct{})}
}

func (c *FakeCmd) SetEnv(env []string) { c.Env = append([]string(nil), env...) }
func (c *FakeCmd) SetDir(dir string)   { c.Dir = dir }
func (c *FakeCmd) SetCmdArgs()         {}
func (c *FakeCmd) AttachIo()           {}
func (c *FakeCmd) StdoutPipe() (io.ReadCloser, error) {
	c.outR, c.outW = io.Pipe()
	return c.outR, nil
}
func (c *FakeCmd) StderrPipe() (io.ReadCloser, error) {
	c.errR, c.errW = io.Pipe()
	return c.errR, nil
}
func (c *FakeCmd) StdinPipe() (io.WriteCloser, error) { return nil, errors.New("no stdin") }
func (c *FakeCmd) Run() error {
	if err := c.Start(); err != nil {
		return err
	}
	return c.Wait()
}
func (c *FakeCmd) Output() ([]byte, error) { return nil, c.Run() }
func (c *FakeCmd) Pid() int                { return 5000000 + c.Inst }
func (c *FakeCmd) ExitCode() int           { return c.code }

func (c *FakeCmd) Start() error {
	w := c.w
	w.mu.Lock()
	defer w.mu.Unlock()
	w.nInst++
	c.Inst = w.nInst
	c.K = w.launches[c.Replica]
	w.launches[c.Replica]++
	if w.Behave != nil {
		c.beh = w.Behave(c.Name, c.K)
	}
	if c.beh.StartErr {
		w.add(Event{Kind: EvStartFail, Proc: c.Replica, Inst: c.Inst})
		c.closePipes()
		return fmt.Errorf("fake: cannot start %s", c.Replica)
	}
	for _, m := range w.OnLaunch {
		m(w, c)
	}
	c.started, c.alive = true, true
	w.cmds = append(w.cmds, c)
	w.add(Event{Kind: EvLaunch, Proc: c.Replica, Inst: c.Inst, Code: c.K})
	return nil
}

func (c *FakeCmd) Wait() error {
	<-c.exited
	return nil
}

func (c *FakeCmd) closePipes() {
	if c.outW != nil {
		c.outW.Close()
	}
	if c.errW != nil {
		c.errW.Close()
	}
}

// exitLocked ends the command; caller holds w.mu. Ground truth first, then observability.
func (c *FakeCmd) exitLocked(code int, cause string) bool {
	if !c.alive {
		return false
	}
	c.alive = false
	c.code = code
	c.w.add(Event{Kind: EvExit, Proc: c.Replica, Inst: c.Inst, Code: code, Cause: cause})
	// EOF on the pipes first, as for a dying process, then the exit status.
	c.closePipes()
	close(c.exited)
	return true
}

func (c *FakeCmd) Stop(sig int, parentOnly bool) error {
	w := c.w
	w.mu.Lock()
	defer w.mu.Unlock()
	if !c.started {
		return errors.New("fake: not started")
	}
	for _, m := range w.OnStop {
		m(w, c, sig)
	}
	txt := ""
	if parentOnly {
		txt = "parent_only"
	}
	w.add(Event{Kind: EvStop, Proc: c.Replica, Inst: c.Inst, Sig: sig, Text: txt})
	if !c.alive {
		return errors.New("os: process already finished")
	}
	c.Signals = append(c.Signals, sig)
	eff := sig
	if eff < 1 || eff > 31 {
		eff = 15
	}
	switch c.beh.OnSignal {
	case "ignore":
		if eff == 9 {
			c.exitLocked(-1, CauseSignalled)
		}
	case "hold":
		if eff == 9 {
			c.exitLocked(-1, CauseSignalled)
		} else {
			c.pendingKill = true
		}
	default:
		c.exitLocked(-1, CauseSignalled)
	}
	return nil
}

// Alive reports ground truth.
func (c *FakeCmd) Alive() bool {
	c.w.mu.Lock()
	defer c.w.mu.Unlock()
	return c.alive
}
func (c *FakeCmd) AliveLocked() bool { return c.alive }
func (c *FakeCmd) PendingKill() bool {
	c.w.mu.Lock()
	defer c.w.mu.Unlock()
	return c.pendingKill && c.alive
}
func (c *FakeCmd) Behaviour() Behaviour { return c.beh }

// Exit is a scripted exit released by the harness.
func (c *FakeCmd) Exit(code int) bool {
	c.w.mu.Lock()
	defer c.w.mu.Unlock()
	return c.exitLocked(code, CauseScripted)
}

// ReleaseKill lets a command that was signalled under OnSignal=hold die now.
func (c *FakeCmd) ReleaseKill() bool {
	c.w.mu.Lock()
	defer c.w.mu.Unlock()
	if !c.pendingKill {
		return false
	}
	return c.exitLocked(-1, CauseSignalled)
}

// Write hands bytes to the command's stdout (stream 1) or stderr (2). The line
// fact is recorded before the bytes can be observed. It returns false if the
// command is no longer alive or the write did not complete within the timeout.
func (c *FakeCmd) Write(stream int, data string, fact string, timeout time.Duration) bool {
	c.w.mu.Lock()
	if !c.alive {
		c.w.mu.Unlock()
		return false
	}
	if fact != "" {
		c.w.add(Event{Kind: EvLine, Proc: c.Replica, Inst: c.Inst, Sig: stream, Text: fact})
	}
	c.w.mu.Unlock()
	pw := c.outW
	if stream == 2 {
		pw = c.errW
	}
	if pw == nil {
		return false
	}
	done := make(chan struct{})
	go func() {
		c.wmu.Lock()
		_, _ = pw.Write([]byte(data))
		c.wmu.Unlock()
		close(done)
	}()
	select {
	case <-done:
		return true
	case <-time.After(timeout):
		return false
	}
}

// LiveCmds returns the commands alive now (ground truth), optionally for one replica.
func (w *World) LiveCmds(replica string) []*FakeCmd {
	w.mu.Lock()
	defer w.mu.Unlock()
	return w.liveLocked(replica)
}

func (w *World) liveLocked(replica string) []*FakeCmd {
	var out []*FakeCmd
	for _, c := range w.cmds {
		if c.alive && (replica == "" || c.Replica == replica) {
			out = append(out, c)
		}
	}
	return out
}
func (w *World) LiveLocked(replica string) []*FakeCmd { return w.liveLocked(replica) }

// AllCmds returns every command that was ever started.
func (w *World) AllCmds() []*FakeCmd {
	w.mu.Lock()
	defer w.mu.Unlock()
	return append([]*FakeCmd(nil), w.cmds...)
}

// Rename follows a replica rename done by the runner (scaling) so ground truth stays addressable.
func (w *World) Rename(old, new string) {
	w.mu.Lock()
	defer w.mu.Unlock()
	for _, c := range w.cmds {
		if c.alive && c.Replica == old {
			c.Replica = new
		}
	}
	if n, ok := w.launches[old]; ok {
		w.launches[new] = n
		delete(w.launches, old)
	}
}

// ---------------------------------------------------------------- holds

type hold struct {
	ch      chan struct{}
	engaged bool
	expiry  time.Duration
}

// ArmHold makes the next arrival of proc at point block until ReleaseHold or expiry.
func (w *World) ArmHold(point, proc string, expiry time.Duration) {
	w.mu.Lock()
	defer w.mu.Unlock()
	w.holds[point+"|"+proc] = &hold{ch: make(chan struct{}), expiry: expiry}
}

// Yield is the hook body.
func (w *World) Yield(point, proc string) {
	w.mu.Lock()
	h := w.holds[point+"|"+proc]
	if h == nil || h.engaged {
		w.mu.Unlock()
		return
	}
	h.engaged = true
	w.add(Event{Kind: EvHold, Proc: proc, Text: point})
	w.mu.Unlock()
	select {
	case <-h.ch:
		w.Record(Event{Kind: EvRelease, Proc: proc, Text: point})
	case <-time.After(h.expiry):
		w.Record(Event{Kind: EvRelease, Proc: proc, Text: point + " expired"})
	}
}

// HoldEngaged reports whether a goroutine is (or was) parked at the hold.
func (w *World) HoldEngaged(point, proc string) bool {
	w.mu.Lock()
	defer w.mu.Unlock()
	h := w.holds[point+"|"+proc]
	return h != nil && h.engaged
}

func (w *World) ReleaseHold(point, proc string) {
	w.mu.Lock()
	h := w.holds[point+"|"+proc]
	delete(w.holds, point+"|"+proc)
	w.mu.Unlock()
	if h != nil {
		close(h.ch)
	}
}

func (w *World) ReleaseAllHolds() {
	w.mu.Lock()
	hs := w.holds
	w.holds = map[string]*hold{}
	w.mu.Unlock()
	for _, h := range hs {
		close(h.ch)
	}
}
