package lifecycle

import (
	"errors"
	"fmt"
	"os"
	"sort"
	"strings"
	"testing"

	"github.com/f1bonacc1/process-compose/src/types"
	"pgregory.net/rapid"

	"verif/harness/pbt"
	"verif/harness/sc"
	"verif/harness/world"
)

type ScaleOp struct {
	Proc string `json:"proc"` // web | db
	Addr string `json:"addr"` // replica | bare | ghost | stale
	Idx  int    `json:"idx"`
	N    int    `json:"n"`
	// PreExit: before the request, the replica with this index (mod current count) ends by itself; stored +1 (0: none)
	PreExit int `json:"pre_exit"`
}

type ScaleCase struct {
	Web  int       `json:"web"` // initial replicas of the templated process
	DB   int       `json:"db"`
	Ops  []ScaleOp `json:"ops"`
	Deps bool      `json:"deps"` // app depends on db-less process `one`
	// BackoffDown: db restarts on exit; its last replica exits, is parked right after its back-off
	// (before the relaunch), and db is scaled down by one: the removed replica must not come back
	BackoffDown bool `json:"backoff_down,omitempty"`
}

func scaleProcs(web, db int) []sc.ProcSpec {
	return []sc.ProcSpec{
		{Name: "web", Replicas: web, Command: "serve {{.PC_REPLICA_NUM}}", WorkingDir: "/tmp",
			Extra: map[string]string{
				"description":     "'replica {{.PC_REPLICA_NUM}} of web'",
				"readiness_probe": "\n      exec:\n        command: 'check {{.PC_REPLICA_NUM}}'\n      period_seconds: 30",
			}},
		{Name: "db", Replicas: db, Command: "db {{.PC_REPLICA_NUM}}"},
		{Name: "one", Command: "one"},
		{Name: "app", Command: "app", Deps: []sc.Dep{{On: "one", Cond: "process_started"}}},
	}
}

func namesOf(name string, n int) []string {
	out := make([]string, n)
	for i := range out {
		out[i] = refName(name, n, i)
	}
	return out
}

func refName(name string, replicas, num int) string {
	if replicas <= 1 {
		return name
	}
	w := len(fmt.Sprint(replicas))
	return fmt.Sprintf("%s-%0*d", name, w, num)
}

func checkScale(c ScaleCase) pbt.Verdict { return checkScaleMode(c, false) }

// checkScaleState is the C09 view of the same histories: only the clause "the reported state
// agrees with the ground truth at every quiescent point" is judged; anything else that goes
// wrong makes the case inconclusive here (C13 judges it).
func checkScaleState(c ScaleCase) pbt.Verdict { return checkScaleMode(c, true) }

func checkScaleMode(c ScaleCase, stateOnly bool) pbt.Verdict {
	var v pbt.Verdict
	failState := func(format string, a ...any) pbt.Verdict {
		v.Violations = append(v.Violations, fmt.Sprintf(format, a...))
		return v
	}
	fail := func(format string, a ...any) pbt.Verdict {
		if stateOnly {
			v.Skip = true
			return v
		}
		return failState(format, a...)
	}
	s := &sc.Scenario{Procs: scaleProcs(c.Web, c.DB), FinishRounds: 3}
	victim := ""
	if c.BackoffDown && c.DB >= 2 {
		victim = refName("db", c.DB, c.DB-1)
		for i := range s.Procs {
			if s.Procs[i].Name == "db" {
				s.Procs[i].Restart = "always"
			}
		}
		s.PreHolds = append(s.PreHolds, sc.Step{Op: sc.OpHold, Point: "run.afterBackoff", Proc: victim})
	}
	e, err := sc.Begin(s)
	if errors.Is(err, sc.ErrLeftover) {
		v.Skip = true
		return v
	}
	if err != nil {
		return fail("load failed: %v", err)
	}
	defer e.Finish()
	count := map[string]int{"web": c.Web, "db": c.DB}
	for k := range count {
		if count[k] < 1 {
			count[k] = 1
		}
	}
	liveByName := func() map[string][]*world.FakeCmd {
		m := map[string][]*world.FakeCmd{}
		for _, cmd := range e.W.LiveCmds("") {
			m[cmd.Replica] = append(m[cmd.Replica], cmd)
		}
		return m
	}
	listed := func() (map[string]types.ProcessState, error) {
		sts, err := e.R.GetProcessesState()
		if err != nil {
			return nil, err
		}
		m := map[string]types.ProcessState{}
		for _, st := range sts.States {
			m[st.Name] = st
		}
		return m, nil
	}
	if victim != "" {
		e.Do(sc.Step{Op: sc.OpExit, Proc: victim, Code: 1})
		if e.H.Busy != "" || !e.W.HoldEngaged("run.afterBackoff", victim) {
			v.Skip = true
			return v
		}
		seq0 := e.W.NumEvents()
		e.Do(sc.Step{Op: sc.OpScale, Proc: refName("db", c.DB, 0), N: c.DB - 1})
		e.Do(sc.Step{Op: sc.OpRelease, Point: "run.afterBackoff", Proc: victim})
		if e.H.Busy != "" {
			v.Skip = true
			return v
		}
		for _, ev := range e.W.Events()[seq0:] {
			if ev.Kind == world.EvLaunch && ev.Proc == victim && c.DB-1 >= 2 {
				// (with one replica left the survivor is renamed to "db": names below)
				return failState("replica %s was removed by the scale-down to %d while it waited to be relaunched, and was launched again afterwards (%s)", victim, c.DB-1, ev)
			}
		}
		if c.DB-1 >= 2 {
			if l := e.W.LiveCmds(victim); len(l) > 0 {
				return failState("removed replica %s has a live command after the scale-down", victim)
			}
		} else {
			// db-0 became db; the removed db-1 must be gone under either name
			e.W.Rename(refName("db", c.DB, 0), "db")
			if l := e.W.LiveCmds(victim); len(l) > 0 {
				return failState("removed replica %s has a live command after the scale-down", victim)
			}
		}
		c.DB--
		count["db"] = c.DB
		v.Labels = append(v.Labels, "scale-down-in-backoff")
	}
	crossed := false
	ended := map[string]map[int]bool{"web": {}, "db": {}} // replicas (by number) that ended by themselves
	for oi, op := range c.Ops {
		cur := count[op.Proc]
		addr := ""
		switch op.Addr {
		case "replica":
			addr = refName(op.Proc, cur, op.Idx%cur)
		case "bare":
			addr = op.Proc
		case "ghost":
			addr = "ghost-7"
		case "stale":
			addr = refName(op.Proc, cur+5, cur+2) // a name no current replica has
		}
		if op.PreExit > 0 && !(victim != "" && op.Proc == "db") { // (a db that restarts does not stay ended)
			i := (op.PreExit - 1) % cur
			if !ended[op.Proc][i] {
				if e.Do(sc.Step{Op: sc.OpExit, Proc: refName(op.Proc, cur, i), Code: 0}) {
					ended[op.Proc][i] = true
					v.Labels = append(v.Labels, "ended-replica")
				}
				if e.H.Busy != "" {
					v.Skip = true
					return v
				}
			}
		}
		before := liveByName()
		listBefore, err := listed()
		if err != nil {
			return fail("op %d: GetProcessesState before: %v", oi, err)
		}
		seq0 := e.W.NumEvents()
		e.Do(sc.Step{Op: sc.OpScale, Proc: addr, N: op.N})
		if e.H.Busy != "" {
			v.Skip = true
			return v
		}
		call := e.H.Calls[len(e.H.Calls)-1]
		if call.SeqRet < 0 {
			return fail("op %d: ScaleProcess(%s,%d) did not return", oi, addr, op.N)
		}
		evs := e.W.Events()[seq0:]
		sideEffects := func() string {
			for _, ev := range evs {
				if ev.Kind == world.EvLaunch || ev.Kind == world.EvStop || ev.Kind == world.EvExit {
					return ev.String()
				}
			}
			return ""
		}
		known := addr == op.Proc && cur == 1 || op.Addr == "replica"
		ambiguous := op.Addr == "bare" && cur > 1
		mustFail := op.N < 1 || op.Addr == "ghost" || op.Addr == "stale"
		if mustFail || (ambiguous && call.Err != "") {
			if mustFail && call.Err == "" {
				return fail("op %d: ScaleProcess(%q,%d) on %d replicas of %s returned no error", oi, addr, op.N, cur, op.Proc)
			}
			if se := sideEffects(); se != "" {
				return fail("op %d: failing ScaleProcess(%q,%d) caused %s", oi, addr, op.N, se)
			}
			after, _ := listed()
			if len(after) != len(listBefore) {
				return fail("op %d: failing ScaleProcess(%q,%d) changed the process list from %d to %d entries", oi, addr, op.N, len(listBefore), len(after))
			}
			continue
		}
		if !known && !ambiguous {
			continue
		}
		if call.Err != "" {
			return fail("op %d: ScaleProcess(%q,%d) on %d replicas of %s failed: %s", oi, addr, op.N, cur, op.Proc, call.Err)
		}
		n := op.N
		oldNames, newNames := namesOf(op.Proc, cur), namesOf(op.Proc, n)
		if (cur < 10) != (n < 10) || (cur < 100) != (n < 100) || (cur == 1) != (n == 1) {
			crossed = true
			v.Labels = append(v.Labels, "width-change")
		}
		if n < cur {
			v.Labels = append(v.Labels, "scale-down")
			crossed = true
		}
		// ground truth follows the renames of the survivors
		for i := 0; i < cur && i < n; i++ {
			if oldNames[i] != newNames[i] {
				e.W.Rename(oldNames[i], newNames[i])
			}
		}
		// survivors untouched, removed terminated, added launched
		surv := map[int]bool{}
		for i := 0; i < cur && i < n; i++ {
			for _, cmd := range before[oldNames[i]] {
				surv[cmd.Inst] = true
			}
		}
		others := map[int]bool{}
		for name, l := range before {
			if !strings.HasPrefix(name, op.Proc) {
				for _, cmd := range l {
					others[cmd.Inst] = true
				}
			}
		}
		launched := map[string]int{}
		for _, ev := range evs {
			switch ev.Kind {
			case world.EvStop, world.EvExit:
				if surv[ev.Inst] {
					return fail("op %d: scaling %s %d->%d disturbed a surviving replica: %s", oi, op.Proc, cur, n, ev)
				}
				if others[ev.Inst] {
					return fail("op %d: scaling %s %d->%d disturbed another process: %s", oi, op.Proc, cur, n, ev)
				}
			case world.EvLaunch:
				launched[ev.Proc]++
				if !strings.HasPrefix(ev.Proc, op.Proc) {
					return fail("op %d: scaling %s launched %s", oi, op.Proc, ev.Proc)
				}
			}
		}
		after := liveByName()
		for i, name := range newNames {
			l := after[name]
			if i < cur && ended[op.Proc][i] {
				// a survivor that had ended stays ended (and stays listed, below)
				if len(l) != 0 {
					return fail("op %d: after scaling %s %d->%d the ended replica %q has %d live commands", oi, op.Proc, cur, n, name, len(l))
				}
				continue
			}
			if len(l) != 1 {
				var have []string
				for k := range after {
					have = append(have, k)
				}
				sort.Strings(have)
				return fail("op %d: after scaling %s %d->%d replica %q has %d live commands (live: %v)", oi, op.Proc, cur, n, name, len(l), have)
			}
			cmd := l[0]
			if i >= cur {
				if launched[name] != 1 {
					return fail("op %d: added replica %q was launched %d times", oi, name, launched[name])
				}
				if cmd.RepNum != i {
					return fail("op %d: added replica %q runs with replica number %d", oi, name, cmd.RepNum)
				}
				if want := fmt.Sprintf("%s %d", map[string]string{"web": "serve", "db": "db"}[op.Proc], i); len(cmd.Args) == 0 || cmd.Args[len(cmd.Args)-1] != want {
					return fail("op %d: added replica %q was launched with arguments %v, want command %q", oi, name, cmd.Args, want)
				}
				if got, _ := lastEnv(cmd.Env, "PC_REPLICA_NUM"); got != fmt.Sprint(i) {
					return fail("op %d: added replica %q got PC_REPLICA_NUM=%q", oi, name, got)
				}
			}
		}
		for i := n; i < cur; i++ {
			for _, cmd := range before[oldNames[i]] {
				if cmd.Alive() {
					return fail("op %d: removed replica %q (inst %d) is still alive", oi, oldNames[i], cmd.Inst)
				}
			}
		}
		for i := range ended[op.Proc] {
			if i >= n {
				delete(ended[op.Proc], i)
			}
		}
		// listing, info, logs: the same set a fresh load with replicas: n gives
		count[op.Proc] = n
		fresh, err := sc.LoadProject(mkdir(), scaleProcs(count["web"], count["db"]), false, 0)
		if err != nil {
			return fail("reference load failed: %v", err)
		}
		list, err := listed()
		if err != nil {
			return failState("op %d: GetProcessesState after scaling: %v", oi, err)
		}
		// reported state vs ground truth, per replica, at this quiescent point (renamed survivors,
		// ended replicas, added and untouched ones alike)
		// a replica added by this request starts with a fresh record, whatever a removed namesake left behind
		for i := cur; i < n; i++ {
			if st, ok := list[newNames[i]]; ok && st.Restarts != 0 {
				return failState("op %d: replica %s was added by scaling %s %d->%d and reports restarts=%d", oi, newNames[i], op.Proc, cur, n, st.Restarts)
			}
		}
		for name, st := range list {
			alive := len(after[name]) > 0
			if st.IsRunning != alive || (st.Status == "Running") != alive {
				return failState("op %d: after scaling %s %d->%d, %s is reported status=%s is_running=%v while it has %d live commands", oi, op.Proc, cur, n, name, st.Status, st.IsRunning, len(after[name]))
			}
		}
		for name := range fresh.Processes {
			if _, ok := list[name]; !ok {
				return fail("op %d: after scaling %s %d->%d the state list misses %q (has %v)", oi, op.Proc, cur, n, name, keysOf(list))
			}
		}
		for name := range list {
			if _, ok := fresh.Processes[name]; !ok {
				return fail("op %d: after scaling %s %d->%d the state list has %q, a fresh load with that replica count has not (%v)", oi, op.Proc, cur, n, name, keysOf(list))
			}
		}
		for _, name := range newNames {
			info, err := e.R.GetProcessInfo(name)
			if err != nil {
				return fail("op %d: GetProcessInfo(%q) after scaling: %v", oi, name, err)
			}
			want := fresh.Processes[name]
			probe := func(p *types.ProcessConfig) string {
				if p.ReadinessProbe != nil && p.ReadinessProbe.Exec != nil {
					return p.ReadinessProbe.Exec.Command
				}
				return ""
			}
			got := []string{info.Name, info.ReplicaName, fmt.Sprint(info.ReplicaNum), fmt.Sprint(info.Replicas), info.Command, info.WorkingDir, info.Description, probe(info), info.Executable, strings.Join(info.Args, "\x00")}
			exp := []string{want.Name, want.ReplicaName, fmt.Sprint(want.ReplicaNum), fmt.Sprint(want.Replicas), want.Command, want.WorkingDir, want.Description, probe(&want), want.Executable, strings.Join(want.Args, "\x00")}
			for k := range got {
				if got[k] != exp[k] {
					fields := []string{"name", "replica_name", "replica_num", "replicas", "command", "working_dir", "description", "readiness probe command", "executable", "args"}
					return fail("op %d: after scaling %s %d->%d, config of %q: %s = %q, a fresh load gives %q", oi, op.Proc, cur, n, name, fields[k], got[k], exp[k])
				}
			}
			if st := list[name]; st.Name != name {
				return fail("op %d: state listed under %q carries the name %q", oi, name, st.Name)
			}
			if _, err := e.R.GetProcessLog(name, 10, 0); err != nil {
				return fail("op %d: GetProcessLog(%q) after scaling: %v", oi, name, err)
			}
		}
		// "each with its own log": what a replica prints after the request - a renamed survivor
		// as much as an added one - is found under the name it has now, and nowhere else
		if !stateOnly {
			for _, name := range newNames {
				if len(e.W.LiveCmds(name)) != 1 {
					continue
				}
				text := fmt.Sprintf("printed-after-op-%d-by-%s", oi, name)
				if !e.Do(sc.Step{Op: sc.OpLine, Proc: name, Stream: 1, Text: text}) {
					continue
				}
				for _, other := range newNames {
					lines, err := e.R.GetProcessLog(other, 20, 0)
					if err != nil {
						return fail("op %d: GetProcessLog(%q) after scaling: %v", oi, other, err)
					}
					has := false
					for _, l := range lines {
						has = has || strings.Contains(l, text)
					}
					if has != (other == name) {
						return fail("op %d: after scaling %s %d->%d, a line printed by %s afterwards: found in the log of %s = %v (last lines %q)", oi, op.Proc, cur, n, name, other, has, lines)
					}
				}
			}
		}
		for i := n; i < cur; i++ {
			stillThere := false
			for _, nn := range newNames {
				if nn == oldNames[i] {
					stillThere = true
				}
			}
			if !stillThere {
				if _, err := e.R.GetProcessLog(oldNames[i], 10, 0); err == nil {
					return fail("op %d: removed replica %q still has a log", oi, oldNames[i])
				}
			}
		}
	}
	v.NonTrivial = crossed
	return v
}

var mkdirN int

func mkdir() string {
	mkdirN++
	d := fmt.Sprintf("%s/ref-%d", sc.TmpRoot(), mkdirN%4)
	_ = os.MkdirAll(d, 0o755)
	return d
}

func keysOf(m map[string]types.ProcessState) []string {
	var out []string
	for k := range m {
		out = append(out, k)
	}
	sort.Strings(out)
	return out
}

func lastEnv(env []string, key string) (string, bool) {
	val, ok := "", false
	for _, e := range env {
		if strings.HasPrefix(e, key+"=") {
			val, ok = e[len(key)+1:], true
		}
	}
	return val, ok
}

func genScale(t *rapid.T) ScaleCase {
	c := ScaleCase{Web: pbt.Pick(t, []int{0, 1, 2, 3}), DB: pbt.Pick(t, []int{0, 1, 2})}
	c.BackoffDown = c.DB >= 2 && pbt.Pct(t, 40)
	n := pbt.Range(t, 1, 6)
	big := pbt.Pct(t, 15)
	for i := 0; i < n; i++ {
		op := ScaleOp{Proc: pbt.Pick(t, []string{"web", "web", "web", "db"}), Addr: pbt.Pick(t, []string{"replica", "replica", "replica", "replica", "bare", "ghost", "stale"}), Idx: pbt.Range(t, 0, 7)}
		if big {
			op.N = pbt.Pick(t, []int{9, 10, 11, 99, 100, 101, 1, 2})
		} else {
			op.N = pbt.Pick(t, []int{-1, 0, 1, 1, 2, 2, 3, 4, 9, 10, 11})
		}
		if pbt.Pct(t, 30) {
			op.PreExit = pbt.Range(t, 1, 8)
		}
		c.Ops = append(c.Ops, op)
	}
	return c
}

func TestC09Scale(t *testing.T) {
	pbt.Run(t, pbt.Spec[ScaleCase]{Prop: "C09", Test: "TestC09Scale", Engine: "lifecycle", Gen: genScale, Check: checkScaleState})
}

func TestC13(t *testing.T) {
	pbt.Run(t, pbt.Spec[ScaleCase]{Prop: "C13", Test: "TestC13", Engine: "lifecycle", Gen: genScale, Check: checkScale})
}
