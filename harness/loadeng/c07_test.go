package loadeng

import (
	"fmt"
	"os"
	"sort"
	"strconv"
	"strings"
	"testing"

	"github.com/f1bonacc1/process-compose/src/admitter"
	"github.com/f1bonacc1/process-compose/src/app"
	"github.com/f1bonacc1/process-compose/src/loader"
	"github.com/f1bonacc1/process-compose/src/types"
	"github.com/rs/zerolog"
	"github.com/rs/zerolog/log"
	"pgregory.net/rapid"

	"verif/harness/pbt"
	"verif/harness/sc"
	"verif/harness/world"
)

func init() { log.Logger = zerolog.Nop() }

var caseDir string

func dir() string {
	if caseDir == "" {
		d, err := os.MkdirTemp("", "verif-load-")
		if err != nil {
			panic(err)
		}
		caseDir = d
	}
	return caseDir
}

func TestMain(m *testing.M) {
	code := m.Run()
	if caseDir != "" {
		os.RemoveAll(caseDir)
	}
	os.RemoveAll(sc.TmpRoot())
	os.Exit(code)
}

// ---------------------------------------------------------------- reference graph algorithms

// PlanCase is a process set with a dependency relation and a request.
type PlanCase struct {
	Procs  []sc.ProcSpec `json:"procs"`
	ToRun  []string      `json:"to_run,omitempty"`
	NoDeps bool          `json:"no_deps,omitempty"`
	Loads  int           `json:"loads"`
	NS     []string      `json:"ns,omitempty"` // enabled namespaces (admitter); empty = all
	Run    bool          `json:"run,omitempty"`
}

// replicaNames of a spec, as the documentation describes them.
func replicaNames(p sc.ProcSpec) []string {
	n := p.Replicas
	if n <= 1 {
		return []string{p.Name}
	}
	w := len(strconv.Itoa(n))
	if n == 10 || n == 100 || n == 1000 {
		w = len(strconv.Itoa(n)) // 10 -> width 2 (1+log10)
	}
	out := make([]string, n)
	for i := range out {
		out[i] = fmt.Sprintf("%s-%0*d", p.Name, w, i)
	}
	return out
}

// refCheck: (hasCycle, dangling) over replica names.
func refCheck(procs []sc.ProcSpec) (bool, bool) {
	defined := map[string][]string{} // replica name -> deps
	for _, p := range procs {
		var deps []string
		for _, d := range p.Deps {
			deps = append(deps, d.On)
		}
		for _, rn := range replicaNames(p) {
			defined[rn] = deps
		}
	}
	dangling := false
	for _, deps := range defined {
		for _, d := range deps {
			if _, ok := defined[d]; !ok {
				dangling = true
			}
		}
	}
	// Kahn over the defined part
	indeg := map[string]int{}
	for n := range defined {
		indeg[n] = 0
	}
	for n, deps := range defined {
		for _, d := range deps {
			if _, ok := defined[d]; ok {
				indeg[n]++
			}
		}
	}
	removed := 0
	queue := []string{}
	for n, k := range indeg {
		if k == 0 {
			queue = append(queue, n)
		}
	}
	for len(queue) > 0 {
		x := queue[0]
		queue = queue[1:]
		removed++
		for n, deps := range defined {
			for _, d := range deps {
				if d == x {
					indeg[n]--
					if indeg[n] == 0 {
						queue = append(queue, n)
					}
				}
			}
		}
	}
	return removed < len(defined), dangling
}

func loadSpecs(c PlanCase) (*types.Project, error) {
	f := dir() + "/plan.yaml"
	if err := os.WriteFile(f, []byte(sc.YAML(c.Procs, false, 0)), 0o644); err != nil {
		return nil, err
	}
	opts := &loader.LoaderOptions{FileNames: []string{f}, IsInternalLoader: true}
	opts.DisableDotenv(true)
	if len(c.NS) > 0 {
		opts.AddAdmitter(&admitter.NamespaceAdmitter{EnabledNamespaces: c.NS})
	}
	return loader.Load(opts)
}

func checkPlan(c PlanCase) pbt.Verdict {
	var v pbt.Verdict
	fail := func(format string, a ...any) pbt.Verdict {
		v.Violations = append(v.Violations, fmt.Sprintf(format, a...))
		return v
	}
	cyc, dang := refCheck(c.Procs)
	spec := map[string]sc.ProcSpec{}
	byReplica := map[string]sc.ProcSpec{}
	for _, p := range c.Procs {
		spec[p.Name] = p
		for _, rn := range replicaNames(p) {
			byReplica[rn] = p
		}
	}
	if cyc {
		v.Labels = append(v.Labels, "cycle")
	}
	if dang {
		v.Labels = append(v.Labels, "dangling")
	}
	nEdges := 0
	for _, p := range c.Procs {
		nEdges += len(p.Deps)
	}
	v.NonTrivial = cyc || dang || (nEdges >= 2 && len(c.ToRun) > 0 && len(c.ToRun) < len(c.Procs))
	loads := c.Loads
	if loads < 1 {
		loads = 1
	}
	for k := 0; k < loads; k++ {
		prj, err := loadSpecs(c)
		if cyc || dang {
			if err == nil {
				return fail("load %d succeeded although the dependency relation has cycle=%v dangling=%v\n%s", k, cyc, dang, sc.YAML(c.Procs, false, 0))
			}
			continue
		}
		if err != nil {
			return fail("load %d failed on an acyclic, fully defined configuration: %v\n%s", k, err, sc.YAML(c.Procs, false, 0))
		}
		// admitter: exactly the processes of the enabled namespaces remain
		for rn, p := range byReplica {
			ns := p.Namespace
			if ns == "" {
				ns = "default"
			}
			admitted := len(c.NS) == 0
			for _, e := range c.NS {
				if e == ns {
					admitted = true
				}
			}
			if _, ok := prj.Processes[rn]; ok != admitted {
				return fail("process %s (namespace %s) present=%v after loading with enabled namespaces %v", rn, ns, ok, c.NS)
			}
		}
		if len(c.NS) > 0 {
			continue
		}
		opts := (&app.ProjectOpts{}).WithProject(prj).WithIsTuiOn(true).WithProcessesToRun(c.ToRun).WithNoDeps(c.NoDeps)
		r, err := app.NewProjectRunner(opts)
		if err != nil {
			return fail("NewProjectRunner failed: %v", err)
		}
		// expected selection over replica names
		expect := expectedSelection(c, byReplica)
		order, err := r.GetDependenciesOrderNames()
		if err != nil {
			return fail("GetDependenciesOrderNames failed on a valid project: %v", err)
		}
		pos := map[string]int{}
		for i, n := range order {
			if _, dup := pos[n]; dup {
				return fail("dependency order lists %s twice: %v", n, order)
			}
			pos[n] = i
		}
		for n := range expect {
			if _, ok := pos[n]; !ok {
				return fail("dependency order %v misses %s, which is to run (request %v noDeps=%v)", order, n, c.ToRun, c.NoDeps)
			}
		}
		for n := range pos {
			if !expect[n] {
				return fail("dependency order %v lists %s, which is not to run (request %v noDeps=%v)", order, n, c.ToRun, c.NoDeps)
			}
		}
		if !c.NoDeps || len(c.ToRun) == 0 {
			for n, i := range pos {
				for _, d := range byReplica[n].Deps {
					if j, ok := pos[d.On]; ok && j > i {
						return fail("dependency order %v puts %s before its dependency %s", order, n, d.On)
					}
				}
			}
		}
		sts, err := r.GetProcessesState()
		if err != nil {
			return fail("GetProcessesState: %v", err)
		}
		for _, st := range sts.States {
			p := byReplica[st.Name]
			switch {
			case expect[st.Name]:
				if st.Status != "Pending" {
					return fail("%s is to run but is listed as %s (request %v noDeps=%v)", st.Name, st.Status, c.ToRun, c.NoDeps)
				}
			case p.Foreground && !(len(c.ToRun) > 0 && !selectedDisabled(c, st.Name, byReplica)):
				if st.Status != "Foreground" && st.Status != "Disabled" {
					return fail("foreground process %s is listed as %s", st.Name, st.Status)
				}
			default:
				if st.Status != "Disabled" && st.Status != "Foreground" {
					return fail("%s is not to run but is listed as %s (request %v noDeps=%v)", st.Name, st.Status, c.ToRun, c.NoDeps)
				}
			}
		}
	}
	if c.Run && !cyc && !dang && len(c.NS) == 0 {
		if msg := runPlan(c, byReplica); msg != "" {
			return fail("%s", msg)
		}
		v.Labels = append(v.Labels, "ran")
	}
	if len(c.ToRun) > 0 {
		v.Labels = append(v.Labels, "subset")
	}
	return v
}

func selectedDisabled(c PlanCase, name string, byReplica map[string]sc.ProcSpec) bool {
	return !expectedSelection(c, byReplica)[name]
}

// expectedSelection: replica names that are to be started automatically.
func expectedSelection(c PlanCase, byReplica map[string]sc.ProcSpec) map[string]bool {
	out := map[string]bool{}
	if len(c.ToRun) == 0 {
		for rn, p := range byReplica {
			if !p.Disabled && !p.Foreground {
				out[rn] = true
			}
		}
		return out
	}
	var visit func(rn string)
	seen := map[string]bool{}
	visit = func(rn string) {
		if seen[rn] {
			return
		}
		seen[rn] = true
		p, ok := byReplica[rn]
		if !ok {
			return
		}
		if !p.Foreground {
			out[rn] = true
		}
		if !c.NoDeps {
			for _, d := range p.Deps {
				visit(d.On)
			}
		}
	}
	for _, req := range c.ToRun {
		for rn, p := range byReplica {
			if rn == req || p.Name == req {
				visit(rn)
			}
		}
	}
	return out
}

// runPlan starts the project behind the fake commander and compares the launched set.
func runPlan(c PlanCase, byReplica map[string]sc.ProcSpec) string {
	s := &sc.Scenario{Procs: c.Procs, ToRun: c.ToRun, NoDeps: c.NoDeps, FinishRounds: 30}
	h := sc.Replay(s)
	if h.LoadErr != "" {
		return "runner could not be built: " + h.LoadErr
	}
	if h.Busy != "" {
		return ""
	}
	launched := map[string]bool{}
	for _, e := range h.Events {
		if e.Kind == world.EvLaunch {
			launched[e.Proc] = true
		}
	}
	expect := expectedSelection(c, byReplica)
	var missing, extra []string
	for n := range expect {
		if !launched[n] {
			missing = append(missing, n)
		}
	}
	for n := range launched {
		if !expect[n] {
			extra = append(extra, n)
		}
	}
	sort.Strings(missing)
	sort.Strings(extra)
	if len(missing)+len(extra) > 0 {
		return fmt.Sprintf("launched set differs from the plan (request %v noDeps=%v): never launched %v, launched although not selected %v\n%s", c.ToRun, c.NoDeps, missing, extra, h.Trace())
	}
	if !h.RunReturned {
		return "Run() did not return after every selected process had ended\n" + h.Trace()
	}
	return ""
}

// ---------------------------------------------------------------- exhaustive small digraphs

func digraph(n int, bits uint64) []sc.ProcSpec {
	procs := make([]sc.ProcSpec, n)
	for i := range procs {
		procs[i].Name = fmt.Sprintf("n%d", i)
	}
	for i := 0; i < n; i++ {
		for j := 0; j < n; j++ {
			if bits&(1<<uint(i*n+j)) != 0 {
				procs[i].Deps = append(procs[i].Deps, sc.Dep{On: procs[j].Name, Cond: "process_completed"})
			}
		}
	}
	return procs
}

func TestC07Exhaustive(t *testing.T) {
	shard, _ := strconv.Atoi(os.Getenv("VERIF_SHARD"))
	shards, _ := strconv.Atoi(os.Getenv("VERIF_SHARDS"))
	if shards < 1 {
		shards = 1
	}
	loads := 2
	maxN := 4
	if os.Getenv("VERIF_TIER") == "thorough" {
		loads = 8
	}
	pbt.Enumerate(t, pbt.Spec[PlanCase]{Prop: "C07", Test: "TestC07Exhaustive", Engine: "loadeng", Check: checkPlan,
		Sample: func(c PlanCase) any { return planSample(c) }},
		func(yield func(PlanCase) bool) {
			idx := 0
			for n := 1; n <= maxN; n++ {
				for bits := uint64(0); bits < 1<<uint(n*n); bits++ {
					idx++
					if idx%shards != shard {
						continue
					}
					l := loads
					if n <= 3 {
						l = 8
					}
					if !yield(PlanCase{Procs: digraph(n, bits), Loads: l}) {
						return
					}
				}
			}
		})
}

func planSample(c PlanCase) any {
	var edges []string
	for _, p := range c.Procs {
		s := p.Name
		if p.Replicas > 1 {
			s += fmt.Sprintf("x%d", p.Replicas)
		}
		if p.Disabled {
			s += "(disabled)"
		}
		if p.Foreground {
			s += "(fg)"
		}
		var ds []string
		for _, d := range p.Deps {
			ds = append(ds, d.On)
		}
		if len(ds) > 0 {
			s += " -> " + strings.Join(ds, ",")
		}
		edges = append(edges, s)
	}
	return map[string]any{"graph": edges, "to_run": c.ToRun, "no_deps": c.NoDeps, "ns": c.NS}
}

// ---------------------------------------------------------------- random larger plans

func genPlan(t *rapid.T) PlanCase {
	n := pbt.Range(t, 3, 9)
	c := PlanCase{Loads: 3}
	for i := 0; i < n; i++ {
		p := sc.ProcSpec{Name: fmt.Sprintf("n%d", i)}
		if pbt.Pct(t, 12) {
			p.Disabled = true
		}
		if pbt.Pct(t, 8) {
			p.Foreground = true
		}
		if pbt.Pct(t, 12) {
			p.Replicas = pbt.Range(t, 2, 3)
		}
		if pbt.Pct(t, 20) {
			p.Namespace = pbt.Pick(t, []string{"blue", "green"})
		}
		c.Procs = append(c.Procs, p)
	}
	mode := pbt.Pick(t, []string{"dag", "dag", "dag", "cycle", "dangling"})
	for i := 1; i < n; i++ {
		for j := 0; j < i; j++ {
			if pbt.Pct(t, 30) && c.Procs[j].Replicas <= 1 {
				c.Procs[i].Deps = append(c.Procs[i].Deps, sc.Dep{On: c.Procs[j].Name, Cond: pbt.Pick(t, []string{"process_completed", "process_started"})})
			}
		}
	}
	switch mode {
	case "cycle":
		// plant a cycle of drawn length through back edges
		l := pbt.Range(t, 1, n)
		start := pbt.Range(t, 0, n-l)
		for k := 0; k < l; k++ {
			from := start + k
			to := start + (k+1)%l
			if c.Procs[to].Replicas > 1 || c.Procs[from].Replicas > 1 {
				c.Procs[to].Replicas, c.Procs[from].Replicas = 0, 0
			}
			c.Procs[from].Deps = appendDep(c.Procs[from].Deps, sc.Dep{On: c.Procs[to].Name, Cond: "process_completed"})
		}
	case "dangling":
		i := pbt.Range(t, 0, n-1)
		c.Procs[i].Deps = appendDep(c.Procs[i].Deps, sc.Dep{On: pbt.Pick(t, []string{"ghost", "n99", "N0"}), Cond: "process_completed"})
	}
	if pbt.Pct(t, 60) {
		k := pbt.Range(t, 1, 3)
		for i := 0; i < k; i++ {
			c.ToRun = append(c.ToRun, c.Procs[pbt.Range(t, 0, n-1)].Name)
		}
		c.ToRun = uniq(c.ToRun)
		c.NoDeps = pbt.Pct(t, 25)
	} else if pbt.Pct(t, 25) {
		c.NS = []string{pbt.Pick(t, []string{"blue", "green", "default"})}
	}
	c.Run = true
	return c
}

func appendDep(deps []sc.Dep, d sc.Dep) []sc.Dep {
	for _, e := range deps {
		if e.On == d.On {
			return deps
		}
	}
	return append(deps, d)
}

func uniq(s []string) []string {
	seen := map[string]bool{}
	var out []string
	for _, x := range s {
		if !seen[x] {
			seen[x] = true
			out = append(out, x)
		}
	}
	return out
}

func TestC07Random(t *testing.T) {
	pbt.Run(t, pbt.Spec[PlanCase]{Prop: "C07", Test: "TestC07Random", Engine: "loadeng", Gen: genPlan, Check: checkPlan,
		Sample: func(c PlanCase) any { return planSample(c) }})
}
