LIFE_TEXT = ("generated-input search (rapid, stateful generation against the live ProjectRunner behind a fake commander) "
             "against a trace oracle over ground-truth events; no violation on the explored cases, not a proof of absence")
LIFE_NOTE = ("trusts the fake commander seam, the goroutine-dump quiescence detector and the trace oracle; interleavings are "
             "those reachable by step order, named yield-point holds and natural scheduling")
LIFE_TECH = "property-based testing (rapid): stateful scenario generation + trace oracle over a ground-truth event log"


def life():
    return {'engine': 'lifecycle', 'level_text': LIFE_TEXT, 'level_note': LIFE_NOTE, 'technique': LIFE_TECH}


META = {p: life() for p in ['C01', 'C02', 'C03', 'C04', 'C05', 'C08', 'C09', 'C12']}
META['C18'] = {
    'engine': 'logbuf',
    'level_text': "exhaustive enumeration of small (length, offset, limit) windows plus rapid state-machine, concurrent and websocket campaigns against a slice model of the log; exploration, not proof",
    'level_note': "model = slice of all written lines; the websocket path runs through api.InitRoutes over a minimal IProject; the stalled-follower defect is a recorded known finding",
    'technique': "property-based testing (rapid state machine + exhaustive small-scope enumeration) against a reference model",
}

NOT_APPLICABLE = {}

ENGINES = [
    {"name": "lifecycle", "path": "harness/lifecycle", "serves_properties": ['C01', 'C02', 'C03', 'C04', 'C05', 'C08', 'C09', 'C12'],
     "kind_free_text": "rapid stateful generation driving app.ProjectRunner through a fake commander (build tag verif); trace oracles in harness/oracle"},
    {"name": "logbuf", "path": "harness/logbuf", "serves_properties": ['C18'],
     "kind_free_text": "rapid + exhaustive enumeration over pclog.ProcessLogBuffer and the websocket log stream"},
]
