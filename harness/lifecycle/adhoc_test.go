package lifecycle

import (
	"encoding/json"
	"fmt"
	"os"
	"testing"

	"verif/harness/oracle"
	"verif/harness/sc"
)

// TestAdhoc replays $VERIF_ADHOC (a Failure or bare Scenario JSON) once and prints the trace
// and the verdicts of every lifecycle oracle. A triage tool, not a check.
func TestAdhoc(t *testing.T) {
	f := os.Getenv("VERIF_ADHOC")
	if f == "" {
		t.Skip()
	}
	b, _ := os.ReadFile(f)
	var fl Failure
	_ = json.Unmarshal(b, &fl)
	s := fl.Scenario
	if s == nil {
		s = &sc.Scenario{}
		if err := json.Unmarshal(b, s); err != nil {
			t.Fatal(err)
		}
	}
	h := sc.Replay(s)
	fmt.Print(h.Trace())
	fmt.Println("run returned:", h.RunReturned, "code:", h.RunCode, "busy:", h.Busy != "", "loaderr:", h.LoadErr)
	for _, p := range h.Parked {
		fmt.Println("PARKED", firstLines(p, 6))
	}
	if n := len(h.Snaps); n > 0 {
		for name, st := range h.Snaps[n-1].States {
			fmt.Printf("final %s: status=%s running=%v exit=%d restarts=%d health=%s\n", name, st.Status, st.IsRunning, st.ExitCode, st.Restarts, st.Health)
		}
	}
	x := oracle.Index(h)
	for _, j := range judges {
		for _, v := range j.Oracle(x) {
			fmt.Println("VERDICT", v)
		}
	}
}
