package oracle

import (
	"strings"

	"verif/harness/sc"
	"verif/harness/world"
)

// legalNext is the life-cycle relation of C09.
var legalNext = map[string][]string{
	// stopped before start shows as Terminating and/or Completed
	"Pending":    {"Running", "Launching", "Skipped", "Error", "Terminating", "Completed"},
	"Disabled":   {},
	"Foreground": {},
	"Running":    {"Restarting", "Terminating", "Completed", "Error"},
	"Launching":  {"Launched", "Error", "Terminating", "Restarting", "Completed"},
	"Launched":   {"Restarting", "Terminating", "Completed"},
	"Restarting": {"Running", "Launching", "Completed", "Terminating", "Error"},
	// Error/Skipped: a process stopped while pending may still find out that it cannot run
	"Terminating": {"Completed", "Restarting", "Skipped", "Error"},
	"Completed":   {},
	"Skipped":     {},
	"Error":       {},
}

// fromFresh: first state of a newly requested instance (explicit start/restart/scale/update).
var fromFresh = []string{"Running", "Launching", "Skipped", "Error", "Terminating", "Completed"}

func in(l []string, s string) bool {
	for _, v := range l {
		if v == s {
			return true
		}
	}
	return false
}

func initialStatus(sp *sc.ProcSpec) string {
	switch {
	case sp == nil:
		return "Pending"
	case sp.Disabled:
		return "Disabled"
	case sp.Foreground:
		return "Foreground"
	}
	return "Pending"
}

// C09 checks every transition and every quiescent snapshot.
func C09(x *Idx) []V {
	var out []V
	h := x.H
	touched := x.Touched()
	last := map[string]string{}
	lastSeq := map[string]int{}
	credits := map[string]int{}
	for i, e := range x.Ev {
		if e.Kind != world.EvState {
			continue
		}
		prev, ok := last[e.Proc]
		if !ok {
			prev = initialStatus(x.SpecAt(procName(x, e.Proc), i))
			if len(h.Scenario.ToRun) > 0 {
				prev = "" // selection may have disabled it; not judged
			}
			lastSeq[e.Proc] = 0
		}
		// every explicit start-like request may begin one new instance from any resting state
		for k := lastSeq[e.Proc]; k < i; k++ {
			if isStartReq(x.Ev[k], e.Proc) {
				credits[e.Proc]++
			}
		}
		legal := in(legalNext[prev], e.Text)
		if !legal && prev != "" {
			if credits[e.Proc] > 0 && in(fromFresh, e.Text) &&
				(prev == "Completed" || prev == "Skipped" || prev == "Error" || prev == "Disabled" || prev == "Foreground" || prev == "Terminating" || prev == "Pending") {
				legal = true
				credits[e.Proc]--
			}
			if touched {
				legal = true // scale/update rebuild processes under the same name
			}
		}
		if !legal && prev != "" {
			out = append(out, V{"C09", "illegal-transition", f("%s: %s -> %s at seq %d", e.Proc, prev, e.Text, i)})
		}
		last[e.Proc] = e.Text
		lastSeq[e.Proc] = i
	}
	if !touched {
		for proc, l := range x.Insts {
			if sp := x.Spec(proc); sp != nil && !sp.ReadyProbe && !sp.LiveProbe && !sp.Daemon {
				out = append(out, x.restartCountVerdicts("C09", proc, l)...)
			}
		}
	}
	for _, sn := range h.Snaps {
		for name, st := range sn.States {
			live := sn.Live[name]
			terminal := st.Status == "Completed" || st.Status == "Skipped" || st.Status == "Error"
			if terminal && len(live) > 0 {
				out = append(out, V{"C09", "terminal-but-alive", f("%s reported %s at snapshot seq %d while inst %v is alive", name, st.Status, sn.Seq, live)})
			}
			signalled := false
			for _, id := range live {
				if in := x.ByInst[id]; in != nil {
					for _, s := range in.Signals {
						if s < sn.Seq {
							signalled = true
						}
					}
				}
			}
			sp := x.SpecAt(procName(x, name), sn.Seq)
			daemon := sp != nil && sp.Daemon
			if !daemon {
				if st.IsRunning && len(live) == 0 {
					out = append(out, V{"C09", "running-but-dead", f("%s reported running (status %s) at snapshot seq %d but no command of it is alive", name, st.Status, sn.Seq)})
				}
				if !st.IsRunning && len(live) > 0 && !signalled {
					out = append(out, V{"C09", "alive-but-not-running", f("%s has inst %v alive and not being terminated at snapshot seq %d but is reported not running (status %s)", name, live, sn.Seq, st.Status)})
				}
				if st.IsRunning && signalled {
					out = append(out, V{"C09", "running-while-terminating", f("%s is being terminated at snapshot seq %d but is reported running (status %s)", name, sn.Seq, st.Status)})
				}
			}
			if st.Status == "Skipped" && st.ExitCode == 0 {
				out = append(out, V{"C09", "skipped-exit-zero", f("%s reported Skipped with exit code 0 at snapshot seq %d", name, sn.Seq)})
			}
			if st.Status == "Error" && st.ExitCode == 0 {
				out = append(out, V{"C09", "error-exit-zero", f("%s reported Error with exit code 0 at snapshot seq %d", name, sn.Seq)})
			}
			if st.Status == "Completed" && !touched && !daemon {
				// exit code of its last command
				var lastIn *Inst
				for _, in := range x.Insts[name] {
					if in.Exit >= 0 && in.Exit < sn.Seq {
						lastIn = in
					}
				}
				if lastIn != nil && lastIn.Code != st.ExitCode && !x.exitCodeExcused(name, sn.Seq) {
					out = append(out, V{"C09", "wrong-exit-code", f("%s reported Completed with exit code %d at snapshot seq %d, its last command (inst %d) exited with %d", name, st.ExitCode, sn.Seq, lastIn.Inst, lastIn.Code)})
				}
			}
		}
		if sn.Final && h.RunReturned && h.Finished && h.Busy == "" {
			for name, st := range sn.States {
				switch st.Status {
				case "Pending", "Launching", "Restarting", "Terminating":
					if len(sn.Live[name]) == 0 && len(h.Parked) == 0 {
						out = append(out, V{"C09", "transient-leftover", f("%s is still reported %s after Run() returned with nothing alive and nothing waiting", name, st.Status)})
					}
				}
			}
		}
	}
	return out
}

// exitCodeExcused: nothing at the moment; kept as the single place for documented exceptions.
func (x *Idx) exitCodeExcused(name string, seq int) bool { return false }

// ---------------------------------------------------------------- C08

// C08 judges instance overlap on the whole log and the outcome of every sequential request.
func C08(x *Idx) []V {
	var out []V
	h := x.H
	for proc, l := range x.Insts {
		for i, in := range l {
			for _, prev := range l[:i] {
				if prev.Inst != in.Inst && prev.Proc == in.Proc && (prev.Exit < 0 || prev.Exit > in.Launch) {
					out = append(out, V{"C08", "two-live-instances", f("%s: inst %d launched at seq %d while inst %d was still alive", proc, in.Inst, in.Launch, prev.Inst)})
				}
			}
		}
	}
	if x.Touched() {
		return out
	}
	// a restart request that returned nil on a running process must lead to a new instance
	for _, c := range h.Calls {
		if c.Op != sc.OpRestart || c.Err != "" || c.SeqRet < 0 {
			continue
		}
		p := c.Proc
		var old *Inst
		for _, in := range x.Insts[p] {
			if in.Launch < c.SeqCall && (in.Exit < 0 || in.Exit > c.SeqCall) {
				old = in
			}
		}
		if old == nil || x.LastStateBefore(p, c.SeqCall) != "Running" || old.Exit < 0 {
			continue
		}
		end := x.End
		cut := x.has(c.SeqCall+1, x.End, func(e world.Event) bool {
			return e.Kind == world.EvAPI && (isStartReq(e, p) || isStopReq(e, p)) || e.Kind == world.EvMark && e.Text == "shutdown-begin"
		})
		if cut >= 0 {
			end = cut
		}
		if old.Exit > end || !h.Finished || h.Busy != "" {
			continue
		}
		n := 0
		for i := c.SeqCall; i < end; i++ {
			if e := x.Ev[i]; e.Proc == p && (e.Kind == world.EvLaunch || e.Kind == world.EvStartFail) {
				n++
				if i < old.Exit {
					out = append(out, V{"C08", "restart-before-exit", f("restart of %s launched the new instance at seq %d before the old one (inst %d) exited at seq %d", p, i, old.Inst, old.Exit)})
				}
			}
		}
		// the new instance waits for the process's dependencies again and may be skipped there (C01 judges that)
		skipped := x.has(c.SeqCall, end, func(e world.Event) bool {
			return e.Kind == world.EvState && e.Proc == p && e.Text == "Skipped"
		}) >= 0
		// policy relaunches of the new instance may add to the count; none at all is the defect
		if n == 0 && cut < 0 && !skipped {
			out = append(out, V{"C08", "restart-lost", f("restart of running %s returned nil (call seq %d, return seq %d) and its old instance exited at seq %d, but no new instance was ever launched", p, c.SeqCall, c.SeqRet, old.Exit)})
		}
	}
	known := map[string]bool{}
	for _, p := range h.Scenario.Procs {
		known[p.Name] = true
	}
	for ai, a := range h.Applied {
		st := a.Step
		if !a.Applicable || st.NoSettle || (st.Op != sc.OpStart && st.Op != sc.OpStop && st.Op != sc.OpRestart) {
			continue
		}
		// sequential only: no other request outstanding during this step
		var call *sc.CallResult
		overl := false
		for _, c := range h.Calls {
			if c.SeqCall >= a.SeqBefore && c.SeqCall < a.SeqAfter && c.Op == st.Op && c.Proc == st.Proc {
				call = c
			} else if c.SeqCall < a.SeqBefore && (c.SeqRet < 0 || c.SeqRet > a.SeqBefore) {
				overl = true
			}
		}
		if call != nil && !overl && (call.SeqRet < 0 || call.SeqRet >= a.SeqAfter) {
			// the request was still blocked when everything had come to rest
			var lb *Inst
			for _, in := range x.Insts[st.Proc] {
				if in.Launch < a.SeqBefore && (in.Exit < 0 || in.Exit > a.SeqBefore) {
					lb = in
				}
			}
			slow := lb != nil && behaviourOf(x.Spec(st.Proc), lb.K) != ""
			held := x.has(0, a.SeqAfter, func(e world.Event) bool { return e.Kind == world.EvHold }) >= 0
			sbv := x.ShutdownBegin()
			if !slow && !held && (sbv < 0 || sbv > a.SeqAfter) {
				out = append(out, V{"C08", "request-blocked", f("%s request on %s (live instance: %v) had not returned when the system came to rest (step seq %d..%d)", st.Op, st.Proc, lb != nil, a.SeqBefore, a.SeqAfter)})
			}
		}
		if call == nil || overl || call.SeqRet < 0 || call.SeqRet >= a.SeqAfter+1 {
			continue
		}
		// shutdown in progress or done: outcomes are governed by C03
		if sb := x.ShutdownBegin(); sb >= 0 && sb < a.SeqAfter {
			continue
		}
		_ = ai
		p := st.Proc
		var evs []world.Event
		for i := a.SeqBefore; i < a.SeqAfter && i < len(x.Ev); i++ {
			e := x.Ev[i]
			if e.Kind == world.EvLaunch || e.Kind == world.EvExit || e.Kind == world.EvStop || e.Kind == world.EvStartFail || e.Kind == world.EvState {
				evs = append(evs, e)
			}
		}
		var liveBefore *Inst
		for _, in := range x.Insts[p] {
			if in.Launch < a.SeqBefore && (in.Exit < 0 || in.Exit > a.SeqBefore) {
				liveBefore = in
			}
		}
		statusBefore := x.LastStateBefore(p, a.SeqBefore)
		if !known[p] {
			if call.Err == "" {
				out = append(out, V{"C08", "unknown-accepted", f("%s on unknown process %q returned no error", st.Op, p)})
			}
			if len(evs) > 0 {
				out = append(out, V{"C08", "unknown-side-effect", f("%s on unknown process %q caused %v", st.Op, p, evs[0])})
			}
			continue
		}
		launchesOfP, exitsOfP, other := 0, 0, 0
		for _, e := range evs {
			if e.Proc != p {
				// dependents may legitimately react (skip, launch) to what happened to p
				continue
			}
			switch e.Kind {
			case world.EvLaunch, world.EvStartFail:
				launchesOfP++
			case world.EvExit:
				exitsOfP++
			}
			_ = other
		}
		sp := x.Spec(p)
		switch st.Op {
		case sc.OpStop:
			if liveBefore != nil && len(liveBefore.Signals) == 0 && statusBefore == "Running" {
				if call.Err != "" {
					out = append(out, V{"C08", "stop-failed", f("stop of running %s failed: %s", p, call.Err)})
				}
				if launchesOfP > 0 {
					out = append(out, V{"C08", "relaunch-after-stop", f("%s was relaunched after a stop request (step seq %d..%d)", p, a.SeqBefore, a.SeqAfter)})
				}
				beh := behaviourOf(sp, liveBefore.K)
				if beh == "" && exitsOfP == 0 {
					out = append(out, V{"C08", "stop-did-not-terminate", f("stop of running %s did not terminate inst %d", p, liveBefore.Inst)})
				}
			}
			if call.Err == "" && liveBefore == nil {
				// an instance that had not launched anything was stopped: it must not launch later
				for i := a.SeqBefore; i < x.End; i++ {
					e := x.Ev[i]
					if isStartReq(e, p) && i >= a.SeqAfter {
						break
					}
					if e.Kind == world.EvLaunch && e.Proc == p {
						out = append(out, V{"C08", "launch-after-stop", f("%s was launched at seq %d although a stop request (step seq %d..%d) on it had succeeded and no new start was requested", p, i, a.SeqBefore, a.SeqAfter)})
						break
					}
				}
			}
			if liveBefore == nil && (statusBefore == "Completed" || statusBefore == "Skipped" || statusBefore == "Error" || statusBefore == "Disabled") && false {
				if call.Err == "" {
					out = append(out, V{"C08", "stop-of-stopped-accepted", f("stop of %s (status %s, nothing alive) returned no error", p, statusBefore)})
				}
				if launchesOfP+exitsOfP > 0 {
					out = append(out, V{"C08", "stop-side-effect", f("stop of %s (status %s) caused launches/exits", p, statusBefore)})
				}
			}
		case sc.OpStart:
			active := liveBefore != nil || statusBefore == "Running" || statusBefore == "Restarting" || statusBefore == "Launching" || statusBefore == "Launched" || statusBefore == "Terminating"
			if statusBefore == "" || statusBefore == "Pending" {
				active = true // registered and waiting for its dependencies (or about to run)
				if sp != nil && (sp.Disabled || sp.Foreground) && statusBefore == "" {
					active = false
				}
			}
			if !active && PendingInstanceAt(x.Ev, p, a.SeqBefore, scheduled(sp)) {
				active = true // a started instance waits for its dependencies under the stale status of its predecessor
			}
			if active {
				if liveBefore != nil && call.Err == "" {
					out = append(out, V{"C08", "start-of-running-accepted", f("start of %s returned no error while inst %d was alive", p, liveBefore.Inst)})
				}
				if liveBefore != nil && (launchesOfP > 0) {
					out = append(out, V{"C08", "start-of-running-launched", f("start of %s launched a new instance while inst %d was alive", p, liveBefore.Inst)})
				}
			} else {
				// when the start-up loop of Run() was held, it creates its (pending) instances at a point
				// the event log does not show: a refusal may then be about such an instance
				loopHeld := scheduled(sp) && x.has(0, x.End, func(e world.Event) bool { return e.Kind == world.EvHold && e.Text == "run.loop" }) >= 0
				if call.Err != "" && !loopHeld {
					out = append(out, V{"C08", "start-refused", f("start of %s (status %q, nothing active) failed: %s", p, statusBefore, call.Err)})
				}
			}
		case sc.OpRestart:
			if call.Err == "" && liveBefore != nil && statusBefore == "Running" && len(liveBefore.Signals) == 0 && len(sp.Deps) == 0 {
				beh := behaviourOf(sp, liveBefore.K)
				if beh == "" {
					if launchesOfP != 1 {
						out = append(out, V{"C08", "restart-launch-count", f("restart of running %s returned nil but %d new instance(s) were launched", p, launchesOfP)})
					}
				} else if launchesOfP > 1 {
					out = append(out, V{"C08", "restart-launch-count", f("restart of %s launched %d new instances", p, launchesOfP)})
				}
			}
		}
	}
	return out
}

func behaviourOf(sp *sc.ProcSpec, k int) string {
	if sp != nil && sp.ShutdownCmd != "" {
		return "nosignal" // the shutdown command replaces the signal: the command dies when the scenario says so
	}
	if sp == nil || len(sp.Beh) == 0 {
		return ""
	}
	if k >= len(sp.Beh) {
		k = len(sp.Beh) - 1
	}
	b := sp.Beh[k].OnSignal
	return strings.TrimSpace(b)
}
