#!/usr/bin/env python3
"""For every 'fixed' entry of known_findings.json: the repro must be reported as a violation on
the parent of the fix commit (scratch worktree, removed afterwards) and pass on the current tree."""
import json, os, subprocess, sys, tempfile, shutil
ROOT = os.path.dirname(os.path.dirname(os.path.abspath(__file__)))
kf = json.load(open(os.path.join(ROOT, 'known_findings.json')))['findings']
only = set(sys.argv[1:])
for f in kf:
    if f.get('status') != 'fixed' or (only and f['commit'] not in only and f['id'] not in only):
        continue
    w = tempfile.mkdtemp(prefix='vf-')
    repo = os.path.join(w, 'repo')
    try:
        full = subprocess.run(['git', '-C', '/repo', 'rev-parse', f['commit'] + '^'], stdout=subprocess.PIPE, text=True).stdout.strip()
        subprocess.run(['git', '-C', '/repo', 'worktree', 'add', '-q', '--detach', repo, full], check=True)
        env = dict(os.environ, VERIF_REPO=repo)
        r = subprocess.run([os.path.join(ROOT, 'check'), f['property'], '--replay', os.path.join(ROOT, f['repro'])], env=env, stdout=subprocess.PIPE, stderr=subprocess.STDOUT, text=True)
        line = [l for l in r.stdout.splitlines() if 'REPLAY-VIOLATION' in l or 'BUILD FAILED' in l]
        print('%-22s %s before-fix: exit %d %s' % (f['id'], f['property'], r.returncode, (line[0][:160] if line else '')), flush=True)
    finally:
        subprocess.run(['git', '-C', '/repo', 'worktree', 'remove', '--force', repo])
        shutil.rmtree(w, ignore_errors=True)
