"""Per-property configuration of the driver: which test functions decide the property,
how many generated cases per shard in each tier, the non-triviality rule (echoed into the
evidence) and generator-class floors (fraction of cases; below it the run is inconclusive)."""

LIFE_ASSUME = [
    "the fake commander (build tag verif) stands in for exec.Cmd: process groups, real pipes and /proc lookups are not on this path (osproc checks cover them)",
    "quiescence is detected from a full goroutine dump: every goroutine parked and no back-off / kill timer pending",
    "restart back-off runs in scaled time (time unit hook); the lower bound is checked on the monotonic clock in the same unit",
    "probe outcomes are injected through the probe-result hook in lifecycle cases (the real prober is exercised by C10)",
]


def life(name, q, t, qshards=16, tshards=16, timeout_q=420, timeout_t=3000):
    return {'pkg': 'lifecycle', 'name': name,
            'quick': {'checks': q, 'shards': qshards, 'timeout': timeout_q},
            'thorough': {'checks': t, 'shards': tshards, 'timeout': timeout_t, 'shrink': 60}}


def tst(pkg, name, q, t, qshards=16, tshards=16, timeout_q=420, timeout_t=3000):
    return {'pkg': pkg, 'name': name,
            'quick': {'checks': q, 'shards': qshards, 'timeout': timeout_q},
            'thorough': {'checks': t, 'shards': tshards, 'timeout': timeout_t, 'shrink': 60}}


PROPS = {
    'C01': {
        'tests': [life('TestC01', 700, 12000)],
        'rule': "rapid draws a DAG of 2-6 processes (45% edge density) over the five condition types, restart policies, readiness probes / ready lines, then interleaves 0-10 drawn steps (exit of a live command with a drawn code, ready/other log line, probe ok/fail, API start/restart) with execution; non-trivial = some dependency produced an exit/probe/line event before its dependent's first launch, or a dependent ended Skipped (the gate was exercised); distinct = distinct scenario JSON (SHA-1)",
        'floors': {'gated:completed': 0.03, 'gated:started': 0.01},
        'assumptions': LIFE_ASSUME,
    },
    'C02': {
        'tests': [life('TestC02', 500, 8000)],
        'rule': "1-3 independent processes, policy in {'',no,always,on_failure,exit_on_failure} x max_restarts 0-4 x backoff 0-3 (scaled unit) x per-launch signal behaviour; 0-10 drawn steps: exits with codes {0,1,2}, StopProcess, ShutDownProject; non-trivial = a restarting policy saw >= 2 exits of one process; distinct = distinct scenario JSON",
        'floors': {'policy:always': 0.1, 'policy:on_failure': 0.1},
        'assumptions': LIFE_ASSUME,
    },
    'C03': {
        'tests': [life('TestC03', 600, 10000)],
        'rule': "C01-style projects (1-5 processes, start failures, hold/ignore signal behaviours) with one ShutDownProject at a drawn position of a 0-8 step tape, in half of the cases preceded by a hold of a drawn process at a drawn yield point; non-trivial = at the shutdown some process was neither running nor terminal (pending, restarting, terminating) or a hold engaged; distinct = distinct scenario JSON",
        'floors': {'hold:': 0.05},
        'assumptions': LIFE_ASSUME,
    },
    'C04': {
        'tests': [life('TestC04', 1500, 25000)],
        'rule': "C01-style projects of 1-6 processes with exit_on_end / exit_on_skipped (15% each) and exit_on_failure, start failures, bad working directories, exit codes {0,1,2,7}; non-trivial = a trigger fired while another command was alive (victims exist) or a process with dependents ended Skipped/Error; distinct = distinct scenario JSON",
        'floors': {'trigger-with-victims': 0.03, 'cannot-start-with-dependents': 0.05},
        'assumptions': LIFE_ASSUME,
    },
    'C05': {
        'tests': [life('TestC05', 1500, 25000)],
        'rule': "2-6 processes, 50% edge density, conditions weighted to completed_successfully / healthy / log_ready, failure kinds: non-zero exit, start error, bad working dir, StopProcess, exit before ready line / probe success; non-trivial = a process skipped at depth >= 2 (its failed dependency was itself skipped); distinct = distinct scenario JSON",
        'floors': {'skip-depth:2': 0.03},
        'assumptions': LIFE_ASSUME,
    },
    'C08': {
        'tests': [life('TestC08', 500, 8000)],
        'rule': "1-3 processes (fast exit, exit held until released, restarting policy, pending on a dependency), histories of up to 16 steps mixing start/stop/restart/stop-many on known and unknown names with scripted exits; non-trivial = a request on a process that was Running and a later request on the same process; distinct = distinct scenario JSON",
        'assumptions': LIFE_ASSUME,
    },
    'C09': {
        'tests': [life('TestC09', 800, 12000)],
        'rule': "union generator: 1-5 processes, all conditions and policies, exit_on_* flags, start failures, bad working dirs, hold/ignore signal behaviours, disabled processes, API start/stop/restart/shutdown incl. unknown names; every status write is recorded by the state hook and every quiescent point is snapshotted; non-trivial = some process went through >= 3 status writes including Restarting/Terminating/Skipped/Error; distinct = distinct scenario JSON",
        'assumptions': LIFE_ASSUME,
    },
    'C12': {
        'tests': [life('TestC12', 1500, 25000)],
        'rule': "DAGs of 2-7 processes (45% density, process_started x3 / process_completed), ordered shutdown at a drawn position, dependents die only when the tape releases them (hold) in a drawn order; non-trivial = a process alive at the shutdown had >= 2 dependents alive; distinct = distinct scenario JSON",
        'floors': {'fan-in>=2': 0.1},
        'assumptions': LIFE_ASSUME,
    },
    'C18': {
        'tests': [tst('logbuf', 'TestC18Exhaustive', 1, 1, qshards=1, tshards=1),
                  tst('logbuf', 'TestC18Model', 2500, 40000),
                  tst('logbuf', 'TestC18Concurrent', 400, 6000),
                  tst('logbuf', 'TestC18Websocket', 12, 150)],
        'rule': "four generators: (1) exhaustive: every log length 0..12 x every (offset, limit) in [-2, len+2]^2 against a slice window; (2) rapid state machine over ProcessLogBuffer (size in {0,1,5,50}) with write bursts up to 130 lines, range queries, subscribe(tail)/unsubscribe/close, model = slice of all lines, invariants after every op; (3) a writer goroutine racing GetLogsAndSubscribe at a drawn scheduling offset; (4) websocket followers through api.InitRoutes (reading / disconnecting second follower). Non-trivial = a range query with offset>0, limit>0, offset+limit != len on a non-empty log, a subscription after lines were written, or a hand-over that fell inside the concurrent stream; distinct = distinct case JSON",
        'assumptions': ["the websocket handler is driven through a minimal IProject that only serves the log subscription calls", "a stalled follower is a recorded known finding and is only replayed, not generated"],
    },
}
