// Package stats collects per-case evidence (labels, non-trivial fingerprints, samples)
// inside a test process and writes it as JSON for the driver to aggregate.
package stats

import (
	"crypto/sha1"
	"encoding/hex"
	"encoding/json"
	"os"
	"strconv"
	"sync"
)

type Collector struct {
	mu         sync.Mutex
	Prop       string            `json:"prop"`
	Test       string            `json:"test"`
	Cases      int               `json:"cases"`
	NonTrivial int               `json:"nontrivial"`
	Labels     map[string]int    `json:"labels"`
	Hashes     []string          `json:"hashes"` // distinct non-trivial fingerprints
	Samples    []json.RawMessage `json:"samples"`
	Excluded   map[string]int    `json:"excluded"`
	Violations []json.RawMessage `json:"violations"`
	Known      map[string]int    `json:"known"`
	Inconcl    int               `json:"inconclusive"`
	Exhaustive bool              `json:"exhaustive,omitempty"`
	Extra      map[string]any    `json:"extra,omitempty"`
	seen       map[string]bool
	MaxSamples int `json:"-"`
}

var (
	allMu sync.Mutex
	all   []*Collector
)

func New(prop, test string) *Collector {
	c := &Collector{Prop: prop, Test: test, Labels: map[string]int{}, Excluded: map[string]int{}, Known: map[string]int{}, seen: map[string]bool{}, MaxSamples: 4, Extra: map[string]any{}}
	allMu.Lock()
	all = append(all, c)
	allMu.Unlock()
	return c
}

// FlushAll writes every collector of this process (used when the process gives up early).
func FlushAll() {
	allMu.Lock()
	l := append([]*Collector(nil), all...)
	allMu.Unlock()
	for _, c := range l {
		c.Flush()
	}
}

// Case records one executed case. fingerprint is any canonical serialisation of the case.
func (c *Collector) Case(fingerprint []byte, nontrivial bool, labels []string, sample any) {
	c.mu.Lock()
	defer c.mu.Unlock()
	c.Cases++
	if c.Cases%flushEvery() == 0 {
		defer c.flushLocked()
	}
	for _, l := range labels {
		c.Labels[l]++
	}
	if !nontrivial {
		return
	}
	c.NonTrivial++
	sum := sha1.Sum(fingerprint)
	h := hex.EncodeToString(sum[:8])
	if c.seen[h] {
		return
	}
	c.seen[h] = true
	c.Hashes = append(c.Hashes, h)
	if len(c.Samples) < c.MaxSamples && sample != nil {
		if b, err := json.Marshal(sample); err == nil && len(b) < 20000 {
			c.Samples = append(c.Samples, b)
		}
	}
}

func (c *Collector) Label(l string) {
	c.mu.Lock()
	c.Labels[l]++
	c.mu.Unlock()
}

func (c *Collector) Exclude(what string) {
	c.mu.Lock()
	c.Excluded[what]++
	c.mu.Unlock()
}

func (c *Collector) KnownHit(what string) {
	c.mu.Lock()
	c.Known[what]++
	c.mu.Unlock()
}

func (c *Collector) Inconclusive() {
	c.mu.Lock()
	c.Inconcl++
	c.mu.Unlock()
}

func (c *Collector) Violation(v any) {
	c.mu.Lock()
	defer c.mu.Unlock()
	if b, err := json.Marshal(v); err == nil {
		c.Violations = append(c.Violations, b)
	}
}

// Flush writes the collector to $VERIF_STATS_DIR/<test>.json (no-op when unset).
func (c *Collector) Flush() {
	dir := os.Getenv("VERIF_STATS_DIR")
	if dir == "" {
		return
	}
	c.mu.Lock()
	defer c.mu.Unlock()
	c.flushLocked()
}

func (c *Collector) flushLocked() {
	dir := os.Getenv("VERIF_STATS_DIR")
	if dir == "" {
		return
	}
	b, _ := json.Marshal(c)
	tmp := dir + "/" + c.Test + ".json.tmp"
	if os.WriteFile(tmp, b, 0o644) == nil {
		_ = os.Rename(tmp, dir+"/"+c.Test+".json")
	}
}

func flushEvery() int {
	if n, err := strconv.Atoi(os.Getenv("VERIF_FLUSH_EVERY")); err == nil && n > 0 {
		return n
	}
	return 250
}
