#!/usr/bin/env python3
"""Generate the harness go.mod/go.sum from the repository's go.mod (full require list,
its replace lines, rapid) with a replace of the repository module to REPO."""
import os, re, sys

def gen(repo, out_mod, out_sum):
    src = open(os.path.join(repo, 'go.mod')).read()
    lines = src.splitlines()
    reqs, reps = [], []
    in_req = False
    for ln in lines:
        s = ln.strip()
        if s.startswith('require ('):
            in_req = True
            continue
        if in_req:
            if s == ')':
                in_req = False
                continue
            if s:
                reqs.append(s)
            continue
        if s.startswith('require '):
            reqs.append(s[len('require '):])
        elif s.startswith('replace '):
            reps.append(s)
    mod = ['module verif/harness', '', 'go 1.22.0', '', 'require (']
    mod.append('\tgithub.com/f1bonacc1/process-compose v0.0.0')
    mod.append('\tpgregory.net/rapid v1.3.0')
    for r in reqs:
        mod.append('\t' + re.sub(r'\s*//\s*indirect', '', r))
    mod.append(')')
    mod.append('')
    mod.append('replace github.com/f1bonacc1/process-compose => ' + os.path.abspath(repo))
    mod += reps
    text = '\n'.join(mod) + '\n'
    sums = open(os.path.join(repo, 'go.sum')).read()
    extra = os.path.join(os.path.dirname(os.path.abspath(__file__)), 'rapid.sum')
    if os.path.exists(extra):
        sums += open(extra).read()
    for path, content in ((out_mod, text), (out_sum, sums)):
        old = open(path).read() if os.path.exists(path) else None
        if old != content:
            tmp = path + '.%d.tmp' % os.getpid()
            open(tmp, 'w').write(content)
            os.replace(tmp, path)

if __name__ == '__main__':
    repo = sys.argv[1] if len(sys.argv) > 1 else '/repo'
    d = sys.argv[2] if len(sys.argv) > 2 else os.path.join(os.path.dirname(os.path.dirname(os.path.abspath(__file__))), 'harness')
    gen(repo, os.path.join(d, 'go.mod'), os.path.join(d, 'go.sum'))
