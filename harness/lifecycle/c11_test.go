package lifecycle

import (
	"bufio"
	"encoding/json"
	"errors"
	"fmt"
	"os"
	"path/filepath"
	"regexp"
	"strings"
	"testing"

	"pgregory.net/rapid"

	"verif/harness/pbt"
	"verif/harness/sc"
)

// OutWrite is one line a command writes: stream 1/2 and payload length.
type OutWrite struct {
	Stream int `json:"s"`
	Len    int `json:"n"`
}

type OutLaunch struct {
	Writes    []OutWrite `json:"writes"`
	NoFinalNL bool       `json:"no_final_nl,omitempty"` // the last write of the launch lacks its newline
	Burst     bool       `json:"burst,omitempty"`       // the last writes are followed by the exit without waiting
	Code      int        `json:"code"`
}

type OutCase struct {
	LogLength int         `json:"log_length"`
	Logger    string      `json:"logger"` // none | proc | unified
	Flush     bool        `json:"flush"`
	NoMeta    bool        `json:"no_meta"`
	NoJSON    bool        `json:"no_json"`
	Launches  []OutLaunch `json:"launches"`
	Noise     bool        `json:"noise"` // a second process logging into the unified file
}

func payload(stream, launch, idx, n int) string {
	tag := "O"
	if stream == 2 {
		tag = "E"
	}
	return fmt.Sprintf("%s%d:%d:", tag, launch, idx) + strings.Repeat(string(rune('a'+idx%26)), n)
}

var markerRe = regexp.MustCompile(`[OE]\d+:\d+:[a-z]*`)

func checkOut(c OutCase) pbt.Verdict {
	var v pbt.Verdict
	fail := func(format string, a ...any) pbt.Verdict {
		v.Violations = append(v.Violations, fmt.Sprintf(format, a...))
		return v
	}
	tmp, err := os.MkdirTemp(sc.TmpRoot(), "out-")
	if err != nil {
		v.Skip = true
		return v
	}
	defer os.RemoveAll(tmp)
	logFile := filepath.Join(tmp, "logs", "out.log")
	p := sc.ProcSpec{Name: "p0", Restart: "always", MaxRestarts: len(c.Launches) - 1, Extra: map[string]string{}}
	if len(c.Launches) == 1 {
		p.Restart, p.MaxRestarts = "no", 0
	}
	logCfg := fmt.Sprintf("\n      flush_each_line: %v\n      no_metadata: %v\n      disable_json: %v\n      no_color: true", c.Flush, c.NoMeta, c.NoJSON)
	top := ""
	switch c.Logger {
	case "proc":
		p.LogLocation = logFile
		p.Extra["log_configuration"] = logCfg
	case "unified":
		top = fmt.Sprintf("log_location: '%s'\nlog_configuration:%s\n", logFile, strings.ReplaceAll(logCfg, "\n      ", "\n  "))
	}
	procs := []sc.ProcSpec{p}
	if c.Noise {
		procs = append(procs, sc.ProcSpec{Name: "noise"})
	}
	s := &sc.Scenario{Procs: procs, LogLength: c.LogLength, Top: top, FinishRounds: 6}
	e, err := sc.Begin(s)
	if errors.Is(err, sc.ErrLeftover) {
		v.Skip = true
		return v
	}
	if err != nil {
		return fail("load failed: %v\n%s", err, sc.YAML(procs, false, c.LogLength, top))
	}
	var want [3][]string // per stream
	total := 0
	emptyWritten := 0
	for k, l := range c.Launches {
		for i, w := range l.Writes {
			if w.Len < 0 {
				// a truly empty line (`echo` without arguments): it is a line like any other
				emptyWritten++
				total++
				if !e.Do(sc.Step{Op: sc.OpLine, Proc: "p0", Stream: w.Stream, Text: "", NoSettle: true}) {
					return fail("harness could not hand the empty line %d of launch %d to the command", i, k)
				}
				continue
			}
			line := payload(w.Stream, k, i, w.Len)
			want[w.Stream] = append(want[w.Stream], line)
			total++
			st := sc.Step{Op: sc.OpLine, Proc: "p0", Stream: w.Stream, Text: line, NoSettle: true}
			if l.NoFinalNL && i == lastOfStream(l.Writes, w.Stream) && i == len(l.Writes)-1 {
				st.N = 1
			}
			if c.Noise && i%3 == 0 {
				e.Do(sc.Step{Op: sc.OpLine, Proc: "noise", Stream: 1, Text: fmt.Sprintf("noise %d %d", k, i), NoSettle: true})
			}
			if !e.Do(st) {
				return fail("harness could not hand line %d of launch %d to the command", i, k)
			}
		}
		if !l.Burst {
			e.Do(sc.Step{Op: sc.OpSettle})
		}
		e.Do(sc.Step{Op: sc.OpExit, Proc: "p0", Code: l.Code})
	}
	// read the in-memory log before the end game
	got, err := e.R.GetProcessLog("p0", 1<<30, 0)
	if err != nil {
		return fail("GetProcessLog: %v", err)
	}
	got = append([]string(nil), got...)
	h := e.Finish()
	if h.Busy != "" {
		v.Skip = true
		return v
	}
	if !h.RunReturned {
		return fail("Run() did not return\n%s", h.Trace())
	}
	// ---- in-memory log
	var have [3][]string
	marked := 0
	for _, l := range got {
		switch {
		case strings.HasPrefix(l, "O") && markerRe.MatchString(l):
			have[1] = append(have[1], l)
			marked++
		case strings.HasPrefix(l, "E") && markerRe.MatchString(l):
			have[2] = append(have[2], l)
			marked++
		}
	}
	for st := 1; st <= 2; st++ {
		w, g := want[st], have[st]
		if len(g) > len(w) {
			return fail("in-memory log has %d lines of stream %d, only %d were written: %s", len(g), st, len(w), brief(g))
		}
		// what is there must be the most recent lines of the stream, in order, each once
		off := len(w) - len(g)
		for i := range g {
			if g[i] != w[off+i] {
				return fail("in-memory log, stream %d, position %d of %d: got %s, want %s (written %d lines)", st, i, len(g), short1(g[i]), short1(w[off+i]), len(w))
			}
		}
	}
	// empty lines cannot carry a marker: they are counted. Restarts add one blank separator each, so
	// the count is exact for a single launch and bounded otherwise (as long as nothing was trimmed).
	if emptyWritten > 0 && total+len(c.Launches) <= c.LogLength {
		emptyHave := 0
		for _, l := range got {
			if l == "" {
				emptyHave++
			}
		}
		if emptyHave < emptyWritten || emptyHave > emptyWritten+len(c.Launches)-1 {
			return fail("in-memory log holds %d empty lines, the command wrote %d (launches %d)", emptyHave, emptyWritten, len(c.Launches))
		}
		v.Labels = append(v.Labels, "empty-lines")
	}
	min := total - emptyWritten
	if c.LogLength-emptyWritten < min {
		min = c.LogLength - emptyWritten
	}
	// restarts add one blank separator line each to the buffer; they may displace marked lines only beyond log_length
	if marked < min-(len(c.Launches)-1) {
		return fail("in-memory log holds %d of the %d written lines, configured length %d", marked, total, c.LogLength)
	}
	// ---- log file
	if c.Logger != "none" {
		f, err := os.Open(logFile)
		if err != nil {
			return fail("log file %s missing after Run() returned: %v", logFile, err)
		}
		defer f.Close()
		if os.Getenv("VERIF_DEBUG_C11") != "" {
			b, _ := os.ReadFile(logFile)
			fmt.Printf("LOGFILE %s:\n%s\nYAML:\n%s\n", logFile, b, sc.YAML(procs, false, c.LogLength, top))
		}
		var fl [3][]string
		rd := bufio.NewReaderSize(f, 1<<20)
		for {
			line, err := rd.ReadString('\n')
			if line != "" {
				msg := ""
				if c.NoJSON {
					msg = markerRe.FindString(line)
				} else {
					var rec map[string]any
					if json.Unmarshal([]byte(line), &rec) == nil {
						msg, _ = rec["message"].(string)
						if !c.NoMeta && markerRe.MatchString(msg) {
							if rec["process"] != "p0" {
								return fail("log file record of p0 carries process=%v: %s", rec["process"], short1(line))
							}
						}
						if c.NoMeta && rec["process"] != nil {
							return fail("no_metadata is set but the record carries process=%v", rec["process"])
						}
					}
				}
				switch {
				case strings.HasPrefix(msg, "O") && markerRe.MatchString(msg):
					fl[1] = append(fl[1], msg)
				case strings.HasPrefix(msg, "E") && markerRe.MatchString(msg):
					fl[2] = append(fl[2], msg)
				}
			}
			if err != nil {
				break
			}
		}
		for st := 1; st <= 2; st++ {
			if len(fl[st]) != len(want[st]) {
				return fail("log file has %d lines of stream %d, %d were written; file: %s ; written: %s", len(fl[st]), st, len(want[st]), brief(fl[st]), brief(want[st]))
			}
			for i := range fl[st] {
				if fl[st][i] != want[st][i] {
					return fail("log file, stream %d, line %d: got %s, want %s", st, i, short1(fl[st][i]), short1(want[st][i]))
				}
			}
		}
	}
	// ---- classification
	for _, l := range c.Launches {
		long := false
		for _, w := range l.Writes {
			if w.Len >= 4096 {
				long = true
			}
		}
		if len(l.Writes) >= 2 && (l.NoFinalNL || long || l.Burst) {
			v.NonTrivial = true
		}
		if l.NoFinalNL {
			v.Labels = append(v.Labels, "no-final-newline")
		}
		if long {
			v.Labels = append(v.Labels, "long-line")
		}
		if l.Burst {
			v.Labels = append(v.Labels, "burst-before-exit")
		}
	}
	if len(c.Launches) > 1 {
		v.NonTrivial = true
		v.Labels = append(v.Labels, "restarts")
	}
	if total > c.LogLength {
		v.Labels = append(v.Labels, "more-than-log-length")
	}
	v.Labels = append(v.Labels, "logger:"+c.Logger)
	return v
}

func lastOfStream(ws []OutWrite, s int) int {
	last := -1
	for i, w := range ws {
		if w.Stream == s {
			last = i
		}
	}
	return last
}

func short1(s string) string {
	if len(s) > 40 {
		return fmt.Sprintf("%q...(%d bytes)", s[:40], len(s))
	}
	return fmt.Sprintf("%q", s)
}

func brief(l []string) string {
	var out []string
	for i, s := range l {
		if i >= 6 {
			out = append(out, fmt.Sprintf("... %d more", len(l)-i))
			break
		}
		out = append(out, short1(s))
	}
	return "[" + strings.Join(out, " ") + "]"
}

func genOut(t *rapid.T) OutCase {
	c := OutCase{LogLength: pbt.Pick(t, []int{10, 100, 1000}), Logger: pbt.Pick(t, []string{"none", "proc", "unified"}),
		Flush: pbt.Pct(t, 50), NoMeta: pbt.Pct(t, 30), NoJSON: pbt.Pct(t, 30), Noise: pbt.Pct(t, 30)}
	nl := pbt.Pick(t, []int{1, 1, 2, 3})
	for k := 0; k < nl; k++ {
		l := OutLaunch{NoFinalNL: pbt.Pct(t, 45), Burst: pbt.Pct(t, 50), Code: pbt.Pick(t, []int{0, 1})}
		n := pbt.Pick(t, []int{0, 1, 2, 3, 5, 12, 40, 150})
		for i := 0; i < n; i++ {
			l.Writes = append(l.Writes, OutWrite{Stream: pbt.Pick(t, []int{1, 1, 2}), Len: pbt.Pick(t, []int{0, 1, 1, 8, 80, 80, 4095, 4096, 4097, 65537, -1})})
		}
		if n > 0 && n <= 3 && pbt.Pct(t, 10) {
			l.Writes[0].Len = 262144
		}
		c.Launches = append(c.Launches, l)
	}
	return c
}

func TestC11(t *testing.T) {
	pbt.Run(t, pbt.Spec[OutCase]{Prop: "C11", Test: "TestC11", Engine: "lifecycle", Gen: genOut, Check: checkOut})
}
