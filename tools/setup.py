#!/usr/bin/env python3
"""Offline setup: generate the harness go.mod/go.sum for /repo and pre-build the test
binaries once so that the first check does not pay for the dependency compilation."""
import os, subprocess, sys
ROOT = os.path.dirname(os.path.dirname(os.path.abspath(__file__)))
sys.path.insert(0, os.path.join(ROOT, 'tools'))
import genmod
repo = os.environ.get('VERIF_REPO', '/repo')
h = os.path.join(ROOT, 'harness')
genmod.gen(repo, os.path.join(h, 'go.mod'), os.path.join(h, 'go.sum'))
env = dict(os.environ, GOFLAGS='-mod=mod', GOPROXY='off', GOSUMDB='off', GOTOOLCHAIN='local')
r = subprocess.run(['go', 'vet', '-tags', 'verif', './...'], cwd=h, env=env)
sys.exit(r.returncode)
