package osproc

import (
	"bytes"
	"fmt"
	"os"
	"os/exec"
	"path/filepath"
	"strconv"
	"strings"
	"syscall"
	"testing"
	"time"

	"github.com/f1bonacc1/process-compose/src/app"
	"github.com/f1bonacc1/process-compose/src/loader"
	"github.com/rs/zerolog"
	"github.com/rs/zerolog/log"
	"pgregory.net/rapid"

	"verif/harness/pbt"
)

func init() { log.Logger = zerolog.Nop() }

// Member of the process tree of the managed process.
type Member struct {
	ID     string `json:"id"`     // p (parent), c1.., g1..
	Parent string `json:"parent"` // id of the member that forks it ("" for p)
	Ignore bool   `json:"ignore"` // records the signal and carries on
}

type StopCase struct {
	Signal     int      `json:"signal"` // configured shutdown.signal (0 = not configured)
	ParentOnly bool     `json:"parent_only"`
	Timeout    int      `json:"timeout"` // shutdown.timeout_seconds (0 = not configured)
	Command    string   `json:"command"` // "", ok, fail, slow
	Tree       []Member `json:"tree"`
	Trigger    string   `json:"trigger"`             // stop | shutdown | SIGTERM | SIGINT | SIGHUP
	Repeat     int      `json:"repeat_ms,omitempty"` // OS-signal triggers: a second signal this many ms after the first
	DelayMs    int      `json:"delay_ms"`
}

var trappable = []int{1, 2, 3, 10, 12, 14, 15, 23, 28, 30, 31}

func script(dir string, tree []Member) string {
	var b strings.Builder
	b.WriteString("#!/bin/bash\nD='" + dir + "'\n")
	b.WriteString("member() {\n  local id=$1 mode=$2\n")
	b.WriteString("  for s in 1 2 3 10 12 14 15 23 28 30 31; do\n    trap \"echo $s >> $D/$id.sig; if [ $mode = die ]; then exit 0; fi\" $s\n  done\n")
	b.WriteString("  echo $BASHPID > $D/$id.pid\n  : > $D/$id.ready\n}\n")
	b.WriteString("loop() { while :; do sleep 0.05; done; }\n")
	var emit func(id string, depth int)
	emit = func(id string, depth int) {
		ind := strings.Repeat("  ", depth)
		for _, m := range tree {
			if m.Parent != id {
				continue
			}
			mode := "die"
			if m.Ignore {
				mode = "ignore"
			}
			fmt.Fprintf(&b, "%s( member %s %s\n", ind, m.ID, mode)
			emit(m.ID, depth+1)
			fmt.Fprintf(&b, "%s  loop ) &\n", ind)
		}
	}
	mode := "die"
	for _, m := range tree {
		if m.ID == "p" && m.Ignore {
			mode = "ignore"
		}
	}
	fmt.Fprintf(&b, "member p %s\n", mode)
	emit("p", 0)
	b.WriteString("loop\n")
	return b.String()
}

func (c StopCase) yaml(dir, id string) string {
	var b strings.Builder
	b.WriteString("version: \"0.5\"\nprocesses:\n  tree:\n")
	fmt.Fprintf(&b, "    entrypoint: ['bash', '%s/tree.sh']\n", dir)
	fmt.Fprintf(&b, "    working_dir: '%s/wd'\n", dir)
	fmt.Fprintf(&b, "    environment:\n      - 'VERIF_CASE=%s'\n      - 'MYVAR=my value'\n", id)
	if c.Signal != 0 || c.ParentOnly || c.Timeout != 0 || c.Command != "" {
		b.WriteString("    shutdown:\n")
		if c.Signal != 0 {
			fmt.Fprintf(&b, "      signal: %d\n", c.Signal)
		}
		if c.ParentOnly {
			b.WriteString("      parent_only: true\n")
		}
		if c.Timeout != 0 {
			fmt.Fprintf(&b, "      timeout_seconds: %d\n", c.Timeout)
		}
		// `$$` keeps the dollar through the load-time environment expansion
		out := fmt.Sprintf(`echo "$$PC_PROC_NAME|$$MYVAR|$$(pwd)" > %s/shutcmd.out`, dir)
		switch c.Command {
		case "ok":
			fmt.Fprintf(&b, "      command: '%s; kill -15 -- -$$(cat %s/p.pid)'\n", out, dir)
		case "fail":
			fmt.Fprintf(&b, "      command: '%s; exit 3'\n", out)
		case "slow":
			fmt.Fprintf(&b, "      command: '%s; sleep 30'\n", out)
		}
	}
	// a bystander that must not be affected by StopProcess of the other
	b.WriteString("  bystander:\n    command: 'sleep 600'\n    environment:\n      - 'VERIF_BYSTANDER=" + id + "'\n")
	return b.String()
}

func effSignal(c StopCase) int {
	if c.Signal >= 1 && c.Signal <= 31 {
		return c.Signal
	}
	return 15
}

// survivors lists the pids whose environment carries the marker.
func survivors(marker string) []int {
	var out []int
	ents, _ := os.ReadDir("/proc")
	for _, e := range ents {
		pid, err := strconv.Atoi(e.Name())
		if err != nil {
			continue
		}
		b, err := os.ReadFile("/proc/" + e.Name() + "/environ")
		if err != nil {
			continue
		}
		if bytes.Contains(b, []byte(marker)) {
			// zombies have an empty environ, so whatever is here is alive
			out = append(out, pid)
		}
	}
	return out
}

func pidOf(dir, id string) int {
	b, err := os.ReadFile(filepath.Join(dir, id+".pid"))
	if err != nil {
		return 0
	}
	n, _ := strconv.Atoi(strings.TrimSpace(string(b)))
	return n
}

func alive(pid int) bool {
	if pid <= 0 {
		return false
	}
	b, err := os.ReadFile(fmt.Sprintf("/proc/%d/stat", pid))
	if err != nil {
		return false
	}
	// state is the field after the ')' of the command name
	if i := bytes.LastIndexByte(b, ')'); i >= 0 && i+2 < len(b) {
		return b[i+2] != 'Z' && b[i+2] != 'X'
	}
	return true
}

func sigs(dir, id string) []string {
	b, err := os.ReadFile(filepath.Join(dir, id+".sig"))
	if err != nil {
		return nil
	}
	return strings.Fields(string(b))
}

func killAll(marker string) {
	for i := 0; i < 5; i++ {
		l := survivors(marker)
		if len(l) == 0 {
			return
		}
		for _, pid := range l {
			_ = syscall.Kill(pid, syscall.SIGKILL)
		}
		time.Sleep(20 * time.Millisecond)
	}
}

var caseN int

func checkStop(c StopCase) pbt.Verdict {
	var v pbt.Verdict
	caseN++
	id := fmt.Sprintf("%d-%d-%d", os.Getpid(), time.Now().UnixNano(), caseN)
	dir, err := os.MkdirTemp("", "verif-os-")
	if err != nil {
		v.Skip = true
		return v
	}
	defer os.RemoveAll(dir)
	marker := "VERIF_CASE=" + id
	defer killAll(marker)
	defer killAll("VERIF_BYSTANDER=" + id)
	_ = os.MkdirAll(filepath.Join(dir, "wd"), 0o755)
	_ = os.WriteFile(filepath.Join(dir, "tree.sh"), []byte(script(dir, c.Tree)), 0o755)
	cfg := filepath.Join(dir, "pc.yaml")
	_ = os.WriteFile(cfg, []byte(c.yaml(dir, id)), 0o644)
	fail := func(format string, a ...any) pbt.Verdict {
		v.Violations = append(v.Violations, fmt.Sprintf(format, a...)+fmt.Sprintf("\ncase %+v", c))
		return v
	}

	viaBinary := strings.HasPrefix(c.Trigger, "SIG")
	var runner *app.ProjectRunner
	runDone := make(chan error, 1)
	var bin *exec.Cmd
	if viaBinary {
		pc := os.Getenv("VERIF_PC_BIN")
		if pc == "" {
			v.Skip = true
			return v
		}
		bin = exec.Command(pc, "up", "-f", cfg, "-t=false", "--no-server", "-L", filepath.Join(dir, "pc.log"), "--disable-dotenv")
		bin.Stdout, bin.Stderr = nil, nil
		bin.Env = append(os.Environ(), "PC_CONFIG_HOME="+dir)
		bin.SysProcAttr = &syscall.SysProcAttr{Setpgid: true}
		if err := bin.Start(); err != nil {
			v.Skip = true
			return v
		}
		go func() { runDone <- bin.Wait() }()
		defer func() {
			if bin.ProcessState == nil {
				_ = bin.Process.Kill()
			}
		}()
	} else {
		lo := &loader.LoaderOptions{FileNames: []string{cfg}, IsInternalLoader: true}
		lo.DisableDotenv(true)
		prj, err := loader.Load(lo)
		if err != nil {
			return fail("load failed: %v\n%s", err, c.yaml(dir, id))
		}
		runner, err = app.NewProjectRunner((&app.ProjectOpts{}).WithProject(prj).WithIsTuiOn(true))
		if err != nil {
			return fail("runner: %v", err)
		}
		go func() { runDone <- runner.Run() }()
	}
	// wait until the whole tree is up
	deadline := time.Now().Add(10 * time.Second)
	for {
		ready := true
		for _, m := range c.Tree {
			if _, err := os.Stat(filepath.Join(dir, m.ID+".ready")); err != nil {
				ready = false
			}
		}
		if ready {
			break
		}
		if time.Now().After(deadline) {
			v.Skip = true // the machine is too busy: inconclusive
			if runner != nil {
				go runner.ShutDownProject()
			}
			return v
		}
		time.Sleep(10 * time.Millisecond)
	}
	time.Sleep(time.Duration(c.DelayMs) * time.Millisecond)
	pids := map[string]int{}
	for _, m := range c.Tree {
		pids[m.ID] = pidOf(dir, m.ID)
	}
	parentIgnores := false
	for _, m := range c.Tree {
		if m.ID == "p" && m.Ignore {
			parentIgnores = true
		}
	}
	// ---- the request
	tReq := time.Now()
	earlyDeath := make(chan string, 1)
	if parentIgnores && c.Timeout > 0 && c.Command == "" {
		// sound lower bound: the parent must still be alive shortly before the timeout elapses
		go func() {
			time.Sleep(time.Duration(c.Timeout)*time.Second - 200*time.Millisecond)
			if !alive(pids["p"]) {
				earlyDeath <- fmt.Sprintf("the SIGTERM-ignoring parent (pid %d) was dead %v after the stop request, shutdown.timeout_seconds is %d", pids["p"], time.Since(tReq).Round(time.Millisecond), c.Timeout)
			} else {
				earlyDeath <- ""
			}
		}()
	} else {
		earlyDeath <- ""
	}
	// parent_only legitimately leaves the descendants alone; they hold the output pipes of the
	// managed process open, so the harness ends them itself once the parent is gone (after
	// noting that they were still alive and had seen no signal)
	// (with a shutdown.command the docs promise the opposite: if it fails or times out the whole
	// group is killed "irrespective of the shutdown.parent_only option", so nothing is reaped here)
	reaped := make(chan string, 1)
	if c.ParentOnly && c.Command == "" {
		go func() {
			for i := 0; i < 1500 && alive(pids["p"]); i++ {
				time.Sleep(10 * time.Millisecond)
			}
			msg := ""
			for _, m := range c.Tree {
				if m.ID == "p" {
					continue
				}
				if !alive(pids[m.ID]) {
					msg = fmt.Sprintf("parent_only is set but member %s (pid %d) died together with the parent", m.ID, pids[m.ID])
				}
				if got := sigs(dir, m.ID); len(got) != 0 {
					msg = fmt.Sprintf("parent_only is set but member %s recorded signals %v", m.ID, got)
				}
			}
			for _, m := range c.Tree {
				if m.ID != "p" {
					_ = syscall.Kill(pids[m.ID], syscall.SIGKILL)
				}
			}
			reaped <- msg
		}()
	} else {
		reaped <- ""
	}
	callDone := make(chan error, 1)
	switch c.Trigger {
	case "stop":
		go func() { callDone <- runner.StopProcess("tree") }()
	case "shutdown":
		go func() { callDone <- runner.ShutDownProject() }()
	default:
		sig := map[string]syscall.Signal{"SIGTERM": syscall.SIGTERM, "SIGINT": syscall.SIGINT, "SIGHUP": syscall.SIGHUP}[c.Trigger]
		_ = bin.Process.Signal(sig)
		if c.Repeat > 0 {
			// an impatient user or service manager repeats the signal while the shutdown is in progress
			go func() {
				time.Sleep(time.Duration(c.Repeat) * time.Millisecond)
				_ = bin.Process.Signal(map[int]syscall.Signal{0: sig, 1: syscall.SIGTERM, 2: syscall.SIGINT}[c.Repeat%3])
			}()
		}
		callDone <- nil
	}
	budget := time.Duration(c.Timeout+12) * time.Second
	select {
	case <-callDone:
	case <-time.After(budget):
		return fail("the %s request did not return within %v", c.Trigger, budget)
	}
	if c.Trigger != "stop" {
		select {
		case <-runDone:
		case <-time.After(budget):
			return fail("after %s the supervisor did not finish within %v", c.Trigger, budget)
		}
	}
	if msg := <-earlyDeath; msg != "" {
		return fail("%s", msg)
	}
	select {
	case msg := <-reaped:
		if msg != "" {
			return fail("%s", msg)
		}
	case <-time.After(20 * time.Second):
		return fail("the parent (pid %d) is still alive 15 s after the %s request", pids["p"], c.Trigger)
	}
	// give signal handlers and the kernel a moment, then look
	expectSurvivors := map[int]bool{}
	var left []int
	for i := 0; i < 100; i++ {
		left = left[:0]
		for _, m := range c.Tree {
			if alive(pids[m.ID]) && !expectSurvivors[pids[m.ID]] {
				left = append(left, pids[m.ID])
			}
		}
		if len(left) == 0 {
			break
		}
		time.Sleep(20 * time.Millisecond)
	}
	if len(left) > 0 {
		return fail("after the %s request completed, members of the managed process tree are still alive: pids %v (tree pids %v)", c.Trigger, left, pids)
	}
	// ---- which signal arrived where
	eff := strconv.Itoa(effSignal(c))
	if c.Command == "" {
		for _, m := range c.Tree {
			got := sigs(dir, m.ID)
			switch {
			case m.ID == "p" || !c.ParentOnly:
				// the configured signal must be the first one this member saw
				if len(got) == 0 || got[0] != eff {
					return fail("member %s recorded signals %v, the configured signal is %s (signal=%d, parent_only=%v)", m.ID, got, eff, c.Signal, c.ParentOnly)
				}
				for _, g := range got {
					if g != eff {
						return fail("member %s recorded signals %v, only %s was configured", m.ID, got, eff)
					}
				}
			}
		}
	} else {
		b, err := os.ReadFile(filepath.Join(dir, "shutcmd.out"))
		want := "tree|my value|" + filepath.Join(dir, "wd")
		if err != nil || strings.TrimSpace(string(b)) != want {
			return fail("shutdown.command did not run with the process's name, environment and working directory: wrote %q (err %v), want %q", strings.TrimSpace(string(b)), err, want)
		}
		psigs := sigs(dir, "p")
		switch c.Command {
		case "ok":
			// the command itself terminated the group with 15; a SIGKILL must not follow
			if len(psigs) == 0 || psigs[0] != "15" {
				return fail("shutdown.command succeeded but the parent recorded %v", psigs)
			}
		default:
			for _, m := range c.Tree {
				if got := sigs(dir, m.ID); len(got) != 0 {
					return fail("shutdown.command %s: member %s received signals %v before the kill", c.Command, m.ID, got)
				}
			}
			if c.Command == "slow" {
				if el := time.Since(tReq); el < time.Duration(c.Timeout)*time.Second {
					return fail("the slow shutdown.command was cut after %v, its timeout is %d s", el, c.Timeout)
				}
			}
		}
	}
	if c.Trigger == "stop" {
		// the bystander is untouched by StopProcess of another process
		if len(survivors("VERIF_BYSTANDER="+id)) == 0 {
			return fail("StopProcess(tree) also terminated the bystander process")
		}
		done := make(chan struct{})
		go func() { _ = runner.ShutDownProject(); close(done) }()
		select {
		case <-done:
		case <-time.After(15 * time.Second):
			return fail("final ShutDownProject did not return")
		}
	}
	if c.Trigger != "stop" && len(survivors("VERIF_BYSTANDER="+id)) != 0 {
		time.Sleep(300 * time.Millisecond)
		if l := survivors("VERIF_BYSTANDER=" + id); len(l) != 0 {
			return fail("after the project shutdown (%s) the bystander process is still alive: %v", c.Trigger, l)
		}
	}
	v.NonTrivial = len(c.Tree) > 1 || c.Signal != 0 || c.ParentOnly || c.Timeout != 0 || c.Command != ""
	if c.ParentOnly {
		v.Labels = append(v.Labels, "parent_only")
	}
	if c.Signal != 0 && (c.Signal < 1 || c.Signal > 31) {
		v.Labels = append(v.Labels, "signal-out-of-range")
	}
	if parentIgnores {
		v.Labels = append(v.Labels, "ignoring-parent")
	}
	if c.Command != "" {
		v.Labels = append(v.Labels, "command:"+c.Command)
	}
	v.Labels = append(v.Labels, "trigger:"+c.Trigger)
	return v
}

func genStop(t *rapid.T) StopCase {
	c := StopCase{Trigger: pbt.Pick(t, []string{"stop", "shutdown", "shutdown", "SIGTERM", "SIGINT", "SIGHUP"}), DelayMs: pbt.Pick(t, []int{0, 0, 30, 120})}
	c.Tree = []Member{{ID: "p"}}
	nc := pbt.Range(t, 0, 3)
	for i := 1; i <= nc; i++ {
		c.Tree = append(c.Tree, Member{ID: fmt.Sprintf("c%d", i), Parent: "p"})
	}
	ng := 0
	if nc > 0 {
		ng = pbt.Range(t, 0, 2)
	}
	for i := 1; i <= ng; i++ {
		c.Tree = append(c.Tree, Member{ID: fmt.Sprintf("g%d", i), Parent: fmt.Sprintf("c%d", pbt.Range(t, 1, nc))})
	}
	switch pbt.Pick(t, []string{"plain", "plain", "signal", "signal", "ignore", "command"}) {
	case "signal":
		c.Signal = pbt.Pick(t, append(append([]int(nil), trappable...), -1, 32, 40, 64, 0))
	case "ignore":
		c.Tree[0].Ignore = true
		c.Timeout = pbt.Pick(t, []int{1, 2})
		for i := 1; i < len(c.Tree); i++ {
			c.Tree[i].Ignore = pbt.Pct(t, 50)
		}
		if pbt.Pct(t, 40) {
			c.Signal = pbt.Pick(t, trappable)
		}
	case "command":
		c.Command = pbt.Pick(t, []string{"ok", "fail", "slow"})
		if c.Command == "slow" {
			c.Timeout = 1
		}
	}
	if (c.Command == "" && pbt.Pct(t, 25)) || (c.Command != "" && pbt.Pct(t, 50)) {
		c.ParentOnly = true
		// members left behind by parent_only must not be asked to die by anything else
	}
	if c.Timeout == 0 && pbt.Pct(t, 20) && c.Command == "" {
		c.Timeout = pbt.Pick(t, []int{1, 2})
	}
	if strings.HasPrefix(c.Trigger, "SIG") && pbt.Pct(t, 50) {
		c.Repeat = pbt.Pick(t, []int{30, 200, 400, 601})
	}
	return c
}

func TestC06(t *testing.T) {
	pbt.Run(t, pbt.Spec[StopCase]{Prop: "C06", Test: "TestC06", Engine: "osproc", Gen: genStop, Check: checkStop})
}

// ---------------------------------------------------------------- C02: the back-off in real seconds

type BackoffCase struct {
	Backoff  int `json:"backoff"` // configured backoff_seconds (0 and 1 both mean one second)
	Restarts int `json:"restarts"`
}

func checkBackoff(c BackoffCase) pbt.Verdict {
	var v pbt.Verdict
	dir, err := os.MkdirTemp("", "verif-bo-")
	if err != nil {
		v.Skip = true
		return v
	}
	defer os.RemoveAll(dir)
	stamp := filepath.Join(dir, "starts")
	y := fmt.Sprintf("version: \"0.5\"\nprocesses:\n  p:\n    command: 'date +%%s%%N >> %s; exit 1'\n    availability:\n      restart: on_failure\n      max_restarts: %d\n      backoff_seconds: %d\n", stamp, c.Restarts, c.Backoff)
	cfg := filepath.Join(dir, "pc.yaml")
	_ = os.WriteFile(cfg, []byte(y), 0o644)
	lo := &loader.LoaderOptions{FileNames: []string{cfg}, IsInternalLoader: true}
	lo.DisableDotenv(true)
	prj, err := loader.Load(lo)
	if err != nil {
		v.Violations = append(v.Violations, "load: "+err.Error())
		return v
	}
	r, err := app.NewProjectRunner((&app.ProjectOpts{}).WithProject(prj).WithIsTuiOn(true))
	if err != nil {
		v.Violations = append(v.Violations, "runner: "+err.Error())
		return v
	}
	done := make(chan error, 1)
	go func() { done <- r.Run() }()
	min := c.Backoff
	if min < 1 {
		min = 1
	}
	select {
	case <-done:
	case <-time.After(time.Duration((c.Restarts+1)*(min+3)+10) * time.Second):
		v.Skip = true
		go r.ShutDownProject()
		return v
	}
	b, _ := os.ReadFile(stamp)
	var ts []int64
	for _, f := range strings.Fields(string(b)) {
		n, _ := strconv.ParseInt(f, 10, 64)
		ts = append(ts, n)
	}
	if len(ts) != c.Restarts+1 {
		v.Violations = append(v.Violations, fmt.Sprintf("on_failure with max_restarts %d: the command ran %d times, want %d", c.Restarts, len(ts), c.Restarts+1))
		return v
	}
	for i := 1; i < len(ts); i++ {
		// each start precedes its exit, so start-to-start is a lower bound for exit-to-relaunch
		if gap := time.Duration(ts[i] - ts[i-1]); gap < time.Duration(min)*time.Second {
			v.Violations = append(v.Violations, fmt.Sprintf("relaunch %d came %v after the previous launch, backoff_seconds=%d (minimum 1 s)", i, gap, c.Backoff))
			return v
		}
	}
	v.NonTrivial = c.Restarts >= 1
	return v
}

func TestC02RealBackoff(t *testing.T) {
	pbt.Run(t, pbt.Spec[BackoffCase]{Prop: "C02", Test: "TestC02RealBackoff", Engine: "osproc",
		Gen: func(t *rapid.T) BackoffCase {
			return BackoffCase{Backoff: pbt.Pick(t, []int{0, 1, 2, -2}), Restarts: pbt.Range(t, 1, 2)}
		},
		Check: checkBackoff})
}

// ---------------------------------------------------------------- C10: give up, relaunch, give up again (real probes, real time)

// GiveUpCase: a real process whose readiness probe (an exec probe reading a flag file) fails all the
// time; the unhooked runner with the real prober must stop and relaunch it once per
// failure_threshold consecutive failures, again and again.
type GiveUpCase struct {
	Threshold int    `json:"threshold"`  // 1..2
	Policy    string `json:"policy"`     // always | on_failure
	Cycles    int    `json:"cycles"`     // give-ups to wait for (2..3)
	HealFirst bool   `json:"heal_first"` // the probe succeeds once before it starts failing
}

func checkGiveUp(c GiveUpCase) pbt.Verdict {
	var v pbt.Verdict
	dir, err := os.MkdirTemp("", "verif-gu-")
	if err != nil {
		v.Skip = true
		return v
	}
	defer os.RemoveAll(dir)
	flag := filepath.Join(dir, "healthy")
	if c.HealFirst {
		_ = os.WriteFile(flag, []byte("1"), 0o644)
	}
	starts := filepath.Join(dir, "starts")
	y := fmt.Sprintf(`version: "0.5"
processes:
  svc:
    command: 'echo s >> %s; exec sleep 600'
    availability:
      restart: %s
      backoff_seconds: 1
    readiness_probe:
      exec:
        command: 'test -f %s'
      period_seconds: 1
      timeout_seconds: 1
      failure_threshold: %d
`, starts, c.Policy, flag, c.Threshold)
	cfg := filepath.Join(dir, "pc.yaml")
	_ = os.WriteFile(cfg, []byte(y), 0o644)
	lo := &loader.LoaderOptions{FileNames: []string{cfg}, IsInternalLoader: true}
	lo.DisableDotenv(true)
	prj, err := loader.Load(lo)
	if err != nil {
		v.Violations = append(v.Violations, "load: "+err.Error())
		return v
	}
	r, err := app.NewProjectRunner((&app.ProjectOpts{}).WithProject(prj).WithIsTuiOn(true))
	if err != nil {
		v.Violations = append(v.Violations, "runner: "+err.Error())
		return v
	}
	done := make(chan error, 1)
	go func() { done <- r.Run() }()
	defer func() {
		sd := make(chan struct{})
		go func() { _ = r.ShutDownProject(); close(sd) }()
		select {
		case <-sd:
		case <-time.After(15 * time.Second):
		}
		select {
		case <-done:
		case <-time.After(5 * time.Second):
		}
	}()
	launches := func() int {
		b, _ := os.ReadFile(starts)
		return len(strings.Fields(string(b)))
	}
	if c.HealFirst {
		// wait until it is reported Ready, then let the probe fail from now on
		ok := false
		for i := 0; i < 80; i++ {
			if st, err := r.GetProcessState("svc"); err == nil && st.Health == "Ready" {
				ok = true
				break
			}
			time.Sleep(100 * time.Millisecond)
		}
		if !ok {
			v.Skip = true // too slow: inconclusive
			return v
		}
		_ = os.Remove(flag)
	}
	// every give-up takes threshold probe periods plus the stop, the back-off and the relaunch
	perCycle := time.Duration(c.Threshold+4) * time.Second
	deadline := time.Now().Add(time.Duration(c.Cycles)*perCycle + 12*time.Second)
	for time.Now().Before(deadline) {
		if launches() >= c.Cycles+1 {
			break
		}
		time.Sleep(200 * time.Millisecond)
	}
	n := launches()
	st, _ := r.GetProcessState("svc")
	if n < c.Cycles+1 {
		status, health, restarts := "?", "?", -1
		if st != nil {
			status, health, restarts = st.Status, st.Health, st.Restarts
		}
		v.Violations = append(v.Violations, fmt.Sprintf("readiness probe fails all the time (threshold %d, period 1 s, policy %s): after %v the command was launched %d times, want at least %d (one relaunch per give-up); status %s, health %s, restarts %d",
			c.Threshold, c.Policy, time.Duration(c.Cycles)*perCycle+12*time.Second, n, c.Cycles+1, status, health, restarts))
		return v
	}
	v.NonTrivial = true
	v.Labels = append(v.Labels, fmt.Sprintf("cycles:%d", c.Cycles))
	return v
}

func TestC10RealGiveUp(t *testing.T) {
	pbt.Run(t, pbt.Spec[GiveUpCase]{Prop: "C10", Test: "TestC10RealGiveUp", Engine: "osproc",
		Gen: func(t *rapid.T) GiveUpCase {
			return GiveUpCase{Threshold: pbt.Range(t, 1, 2), Policy: pbt.Pick(t, []string{"always", "on_failure"}), Cycles: pbt.Range(t, 2, 3), HealFirst: pbt.Pct(t, 40)}
		},
		Check: checkGiveUp})
}
