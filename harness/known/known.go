// Package known reads /verif/known_findings.json. Entries with status "known" are
// defects recorded but not repaired: their class is excluded from generation and a
// matching verdict is reported as KNOWN-FINDING instead of VIOLATION. Entries with
// status "fixed" suppress nothing.
package known

import (
	"encoding/json"
	"os"
	"path/filepath"
	"runtime"
	"strings"

	"verif/harness/oracle"
	"verif/harness/sc"
)

type Entry struct {
	ID       string `json:"id"`
	Property string `json:"property"`
	Status   string `json:"status"` // known | fixed
	Commit   string `json:"commit,omitempty"`
	What     string `json:"what"`
	Repro    string `json:"repro,omitempty"`
	Match    string `json:"signature,omitempty"` // human-readable description of the matcher
}

type Set struct {
	Entries []Entry
	byID    map[string]Entry
}

func Path() string {
	if p := os.Getenv("VERIF_KNOWN"); p != "" {
		return p
	}
	_, file, _, _ := runtime.Caller(0)
	return filepath.Join(filepath.Dir(file), "..", "..", "known_findings.json")
}

func Load() *Set {
	s := &Set{byID: map[string]Entry{}}
	b, err := os.ReadFile(Path())
	if err != nil {
		return s
	}
	var doc struct {
		Findings []Entry `json:"findings"`
	}
	if json.Unmarshal(b, &doc) != nil {
		return s
	}
	s.Entries = doc.Findings
	for _, e := range doc.Findings {
		s.byID[e.ID] = e
	}
	return s
}

// Active: is id listed with status "known" (i.e. still to be tolerated)?
func (s *Set) Active(id string) bool {
	e, ok := s.byID[id]
	return ok && e.Status == "known"
}

func (s *Set) Get(id string) (Entry, bool) { e, ok := s.byID[id]; return e, ok }

// LifecycleMatcher decides whether a verdict of a lifecycle oracle is an instance of a finding.
type LifecycleMatcher func(v oracle.V, h *sc.History, x *oracle.Idx) bool

var Lifecycle = map[string]LifecycleMatcher{}

// Match returns the id of the active known finding that explains v ("" if none).
func (s *Set) Match(v oracle.V, h *sc.History, x *oracle.Idx) string {
	for _, e := range s.Entries {
		if e.Status != "known" || e.Property != v.Prop {
			continue
		}
		if m := Lifecycle[e.ID]; m != nil && m(v, h, x) {
			return e.ID
		}
	}
	return ""
}

func init() {
	// Two start/restart requests on one process whose call intervals overlap each launch an instance.
	Lifecycle["C08-concurrent-start"] = func(v oracle.V, h *sc.History, x *oracle.Idx) bool {
		if v.Kind != "two-live-instances" {
			return false
		}
		for _, a := range h.Calls {
			if a.Op != sc.OpStart && a.Op != sc.OpRestart {
				continue
			}
			for _, b := range h.Calls {
				if b.ID <= a.ID || b.Proc != a.Proc || (b.Op != sc.OpStart && b.Op != sc.OpRestart) {
					continue
				}
				aRet := a.SeqRet
				if aRet < 0 {
					aRet = 1 << 30
				}
				if b.SeqCall < aRet && len(v.Msg) > len(a.Proc) && v.Msg[:len(a.Proc)+1] == a.Proc+":" {
					return true
				}
			}
		}
		return false
	}
}

func init() {
	// A restart request on a process that is still waiting for its dependencies leaves two
	// instances sharing one status record; the stopped one may later overwrite the live one's status.
	m := func(v oracle.V, h *sc.History, x *oracle.Idx) bool {
		for _, a := range h.Applied {
			if a.Step.Op != sc.OpRestart || !a.Applicable {
				continue
			}
			p := a.Step.Proc
			if len(v.Msg) <= len(p) || v.Msg[:len(p)] != p || (v.Msg[len(p)] != ' ' && v.Msg[len(p)] != ':') {
				continue
			}
			sp := h.Scenario.Spec(p)
			if sp == nil || !oracle.PendingInstanceAt(h.Events, p, a.SeqBefore, !sp.Disabled && !sp.Foreground) {
				continue
			}
			live := false
			for _, in := range x.Insts[p] {
				if in.Launch < a.SeqBefore && (in.Exit < 0 || in.Exit > a.SeqBefore) {
					live = true
				}
			}
			if !live {
				return true
			}
		}
		return false
	}
	Lifecycle["C09-restart-while-pending"] = m
}

func init() {
	// Same root cause as C09-restart-while-pending, seen from C08: the live replacement is reported
	// Completed by the stopped instance's late return, so a later restart/stop on it signals nothing
	// and the restart never returns.
	Lifecycle["C08-blocked-after-restart-while-pending"] = func(v oracle.V, h *sc.History, x *oracle.Idx) bool {
		// the registry, not the status, decides whether a start is accepted: verdicts about two
		// instances alive at once are never explained by the shared record
		switch v.Kind {
		case "two-live-instances", "start-of-running-accepted", "start-of-running-launched":
			return false
		}
		words := strings.FieldsFunc(v.Msg, func(r rune) bool {
			return !(r >= 'a' && r <= 'z' || r >= 'A' && r <= 'Z' || r >= '0' && r <= '9' || r == '_' || r == '-')
		})
		for _, a := range h.Applied {
			if a.Step.Op != sc.OpRestart || !a.Applicable {
				continue
			}
			p := a.Step.Proc
			named := false
			for _, w := range words {
				named = named || w == p
			}
			if !named {
				continue
			}
			sp := h.Scenario.Spec(p)
			if sp == nil || !oracle.PendingInstanceAt(h.Events, p, a.SeqBefore, !sp.Disabled && !sp.Foreground) {
				continue
			}
			live := false
			for _, in := range x.Insts[p] {
				if in.Launch < a.SeqBefore && (in.Exit < 0 || in.Exit > a.SeqBefore) {
					live = true
				}
			}
			if !live {
				return true
			}
		}
		return false
	}
}
